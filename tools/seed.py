#!/usr/bin/env python3
"""Confirm a seeded change and file it under /verif/seeded/<name>/.

usage: seed.py <mut-dir> <A|B> <name> <check-id>...
  <mut-dir>/<X>.diff, <X>_demo.py, <X>_meta.json as delivered by a sub-agent.
Confirms in a throw-away worktree of /repo: demo passes on the clean tree; with the diff applied the documented
test run (cd test && pytest) still reports the baseline, the pinned command still reports 181 passed, and the demo
fails; then runs the listed /verif checks against the changed tree (VERIF_REPO) and records which of them report a
violation.  Nothing is ever applied to /repo itself by this script.
"""
import json
import os
import re
import shutil
import subprocess
import sys


def sh(cmd, cwd=None, env=None, timeout=3600):
    full = dict(os.environ)
    full.update(env or {})
    p = subprocess.run(cmd, shell=True, cwd=cwd, env=full, capture_output=True, text=True, timeout=timeout)
    return p.returncode, p.stdout + p.stderr


def main():
    mutdir, which, name = sys.argv[1:4]
    checks = sys.argv[4:]
    wt = f'/var/tmp/seedwt-{os.getpid()}'
    rc, out = sh(f'git -C /repo worktree add -q --detach {wt} HEAD')
    assert rc == 0, out
    try:
        demo = os.path.abspath(os.path.join(mutdir, f'{which}_demo.py'))
        diff = os.path.abspath(os.path.join(mutdir, f'{which}.diff'))
        env = {'PYTHONPATH': f'{wt}/src', 'PYTHONHASHSEED': '0'}
        rc_clean, out_clean = sh(f'/venv/bin/python {demo}', cwd=wt, env=env)
        rc, out = sh(f'git apply {diff}', cwd=wt)
        assert rc == 0, out
        _, suite = sh('/venv/bin/python -m pytest -q -p no:cacheprovider --continue-on-collection-errors 2>&1 | tail -1',
                      cwd=f'{wt}/test')
        _, pinned = sh('/venv/bin/python -m pytest -q -p no:cacheprovider --timeout=900 '
                       '--continue-on-collection-errors 2>&1 | tail -1', cwd=wt)
        rc_mut, out_mut = sh(f'/venv/bin/python {demo}', cwd=wt, env=env)
        results = {}
        for cid in checks:
            rc, out = sh(f'./check {cid} --tier quick', cwd='/verif', env={'VERIF_REPO': wt, 'VERIF_SCRATCH': '/var/tmp'})
            viol = [ln for ln in out.splitlines() if ln.startswith('VIOLATION')]
            first = ''
            lines = out.splitlines()
            for i, ln in enumerate(lines):
                if ln.startswith('VIOLATION') and i + 1 < len(lines):
                    first = lines[i + 1].strip()[:300]
                    break
            results[cid] = {'exit': rc, 'violations': len(viol), 'first': first}
        ok = rc_clean == 0 and rc_mut != 0 and '276 passed' in suite and '181 passed' in pinned
        meta_in = json.load(open(os.path.join(mutdir, f'{which}_meta.json')))
        dest = os.path.join('/verif/seeded', name)
        os.makedirs(dest, exist_ok=True)
        shutil.copy(diff, os.path.join(dest, 'patch.diff'))
        shutil.copy(demo, os.path.join(dest, 'demo.py'))
        meta = {
            'property': meta_in.get('property'),
            'summary': meta_in.get('summary'),
            'needs': meta_in.get('needs'),
            'files': meta_in.get('files'),
            'origin': meta_in.get('origin', 'independent sub-agent given only the property text and a scratch worktree'),
            'confirmed': {
                'demo_exit_clean': rc_clean, 'demo_exit_changed': rc_mut,
                'documented_suite_with_change': suite.strip(), 'pinned_suite_with_change': pinned.strip(),
                'commands': ['PYTHONPATH=<wt>/src /venv/bin/python demo.py (clean, then after git apply patch.diff)',
                             'cd <wt>/test && /venv/bin/python -m pytest -q -p no:cacheprovider --continue-on-collection-errors',
                             'cd <wt> && /venv/bin/python -m pytest -q -p no:cacheprovider --timeout=900 --continue-on-collection-errors'],
                'all_conditions_met': ok,
            },
            'checks': results,
            'detected_by': sorted(c for c, r in results.items() if r['exit'] == 1),
        }
        json.dump(meta, open(os.path.join(dest, 'meta.json'), 'w'), indent=1)
        print(name, 'confirmed' if ok else f'NOT CONFIRMED clean={rc_clean} mut={rc_mut} suite={suite.strip()} pinned={pinned.strip()}',
              'detected_by', meta['detected_by'], {c: r['first'][:120] for c, r in results.items()})
    finally:
        sh(f'git -C /repo worktree remove --force {wt}')


if __name__ == '__main__':
    main()
