#!/venv/bin/python
"""Self-test of the trace specifications (run by setup.sh): for every *Trace.tla a small genuine trace recorded from
the real code must be accepted, and the same trace with ONE observed field corrupted must be rejected at exactly that
event.  A trace spec that accepts a corrupted trace would make the checks vacuous; that is a machinery failure."""
import copy
import os
import random
import sys

sys.path.insert(0, os.path.dirname(os.path.dirname(os.path.abspath(__file__))))
from harness import core  # noqa: E402


class Quiet:
    def __init__(self):
        self.states = self.transitions = self.traces = 0
        self.tlc_runs = []


def expect(module, cfg, good, bad, bad_pos, label):
    chk = Quiet()
    rej = core.validate_traces(chk, module, cfg, [dict(good, id='good'), dict(bad, id='bad')])
    got = {t['id']: pos for t, pos in rej}
    if got != {'bad': bad_pos}:
        print(f'SELFTEST FAILED {label}: rejected {got}, expected only the corrupted trace at event {bad_pos}')
        return False
    print(f'selftest ok: {label}')
    return True


def main():
    core.repo_guard()
    okay = True
    rng = random.Random(1)
    # text
    from harness import text_checks
    mods = text_checks._mods()
    trc = text_checks.record_text_trace(rng, 'x', mods, 'block')
    bad = copy.deepcopy(trc)
    bad['events'][1]['obs']['lines'] = bad['events'][1]['obs']['lines'] + [[120]]
    okay &= expect('TextBlockTrace', 'TextBlockTrace.cfg', trc, bad, 2, 'TextBlockTrace')
    # parser
    from harness import parser_checks
    trc = parser_checks._quiet(parser_checks.record_parse_trace, random.Random(3), 'x')
    while not any(trc['events'][1]['obs']['fc'][c] for c in trc['events'][1]['obs']['fc']):
        trc = parser_checks._quiet(parser_checks.record_parse_trace, rng, 'x')
    bad = copy.deepcopy(trc)
    cont = next(c for c in bad['events'][1]['obs']['fc'] if bad['events'][1]['obs']['fc'][c])
    bad['events'][1]['obs']['fc'][cont] = bad['events'][1]['obs']['fc'][cont][1:]
    okay &= expect('DznDocTrace', 'DznDocTrace.cfg', trc, bad, 2, 'DznDocTrace')
    trc = parser_checks.record_scoping_trace(rng, 'x')
    bad = copy.deepcopy(trc)
    evt = bad['events'][0]
    evt['obs'] = (evt['obs'] + [['zz']]) if evt['op'] == 'order' else evt['obs'] + [{'kind': 'enum', 'fqn': ['zz']}]
    okay &= expect('ScopingTrace', 'ScopingTrace.cfg', trc, bad, 1, 'ScopingTrace')
    # port selection
    from harness import portsel_checks
    trc = parser_checks._quiet(portsel_checks.record_trace, rng, 'x')
    bad = copy.deepcopy(trc)
    bad['events'][0]['k'] = 'internal'
    okay &= expect('PortSelectionTrace', 'PortSelectionTrace.cfg', trc, bad, 1, 'PortSelectionTrace')
    # builds
    from harness import build_checks
    trc = build_checks.record_build_trace(rng, 'x')
    bad = copy.deepcopy(trc)
    bad['events'][0]['obs']['ok'] = not bad['events'][0]['obs']['ok']
    okay &= expect('ShellTrace', 'ShellTrace.cfg', trc, bad, 1, 'ShellTrace')
    evt = {'key': 'k', 'ckey': 'c', 'out': 'ok:1', 'ncout': 'n', 'before': ['a', 'b'], 'after': ['a', 'b'], 'md5ok': True,
           'supportok': True, 'ok': True}
    trc = {'events': [evt, dict(evt)]}
    bad = {'events': [evt, dict(evt, out='ok:2')]}
    okay &= expect('BuildHistoryTrace', 'BuildHistoryTrace.cfg', trc, bad, 2, 'BuildHistoryTrace (function inference)')
    bad = {'events': [evt, dict(evt, after=['a', 'X'])]}
    okay &= expect('BuildHistoryTrace', 'BuildHistoryTrace.cfg', trc, bad, 2, 'BuildHistoryTrace (input digests)')
    evt = {'kind': 'delete-key', 'cls': 'component', 'key': 'ports', 'arg': '', 'pos': 'element', 'outcome': 'DznJsonError'}
    trc = {'events': [evt]}
    bad = {'events': [dict(evt, outcome='internal:KeyError')]}
    okay &= expect('ParserFaults', 'ParserFaults_trace.cfg', trc, bad, 1, 'ParserFaults (trace mode)')
    return 0 if okay else 1


if __name__ == '__main__':
    sys.exit(main())
