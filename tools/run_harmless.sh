#!/bin/bash
# usage: run_harmless.sh <name> [check-id...]   -- applies seeded-harmless/<name>/patch.diff (a behaviour-preserving
# refactoring) in a throw-away worktree and runs the quick checks against it: every check must stay silent (rc=0).
name=$1; shift
ids=${@:-C01 C02 C03 C04 C05 C06 C07 C08 C09 C10 C11 C12 C13 C14 C15 C16 C17 C18 C19 C20}
out=$(timeout 3600 /verif/tools/try_mutation.sh ${HARMLESS_DIR:-/verif/seeded-harmless}/$name/patch.diff $ids 2>&1)
echo "$name: $(echo "$out" | grep -c 'rc=0') silent, alarms: $(echo "$out" | grep '^==' | grep -v 'rc=0' | awk '{print $3,$4}' | tr '\n' ' ')"
