#!/usr/bin/env python3
"""Generates /verif/MANIFEST.json from the table below (single source of truth for what is claimed)."""
import json
import os

VERIF = os.path.dirname(os.path.dirname(os.path.abspath(__file__)))

BASE_TRUST = ('TLC 1.8 evaluates the TLA+ modules faithfully; the Python replay/recording harness under /verif/harness; '
              'the bounded universes stated in coverage.rule. ')

CHECKS = {
    'C17': dict(
        technique='TLA+ model (Text.tla, TextBlock.tla) checked with TLC; exhaustive replay of TLC-enumerated values and '
                  'call histories into the real TextBlock; TLC trace validation of recorded executions',
        text='Text.tla/TextBlock.tla model flattening, line splitting, the TextBlock object and chunk/cond_chunk; the '
             'laws of the property are TLC invariants/action properties of the model; every enumerated content value '
             '(all strings to length 2/3 over 15 code points incl. all ten Python line breaks, nestings to depth 2) and '
             'every call history (<=3/4 calls) is replayed through the real code, and thousands of random executions '
             'are validated against the model by TextBlockTrace.tla.',
        design='3/C17',
        note=BASE_TRUST + 'Beyond the bounds the guarantee is sampled (random traces), not exhaustive.'),
    'C18': dict(
        technique='TLA+ model (Indent.tla) with IndentLaw as TLC invariant; exhaustive replay of all enumerated '
                  '(configuration, lines) cases into Indentizer/TextBlock.indent; TLC trace validation',
        text='Indent.tla is the Indentizer configuration algebra; IndentLaw (line count/order, blank lines stay empty, '
             'exact whitespace, glyph rules, continuation alignment, to_str = to_list) is a TLC invariant over every '
             'configuration x line sequence of the bounded universe, incl. all pairs for repeated indentation; every '
             'case is replayed through to_list, to_str and TextBlock.indent with a header.',
        design='3/C18',
        note=BASE_TRUST + 'Glyph clauses assume non-empty glyphs without leading/trailing whitespace.'),
    'C05': dict(
        technique='TLA+ model of documents and parsing (DznDoc.tla) checked with TLC; exhaustive replay of TLC-built '
                  'documents through the real parser with a full-projection comparison; TLC trace validation of random documents',
        text='DznDoc.tla models a Dezyne document as a token sequence and Parse as a fold with a namespace stack (fqn '
             'formation, nine ordered containers, hoisting of interface-local types, inert skips); the C05 laws are TLC '
             'invariants; every balanced document of the bounded space is written to JSON by an independent writer, parsed '
             'by DznJsonAst and the complete projection of FileContents (every field, in order) compared with Parse(doc); '
             'random larger documents with random payloads are validated by DznDocTrace.tla.',
        design='3/C05',
        note=BASE_TRUST + 'Payload contents (ports, events, formals, ...) are opaque to the model; the harness unparser decides '
             'that the parsed payload equals the written one.'),
    'C14': dict(
        technique='TLA+ model (Scoping.tla) with LookupLaw/notation laws as TLC invariants; exhaustive replay of enumerated '
                  '(declarations, name, scope) cases and identifier strings into find_fqn/find_any/scope_resolution_order/'
                  'namespaceids_t; TLC trace validation of random lookups',
        text='Scoping.tla defines the scope chain, resolution order, FindFqn, FindAny and the three notations; the property '
             'is the TLC invariant LookupLaw over every name x scope x subset of relevant declarations (identifiers chosen so '
             'that one is a textual prefix of another), and HandedOutLaw/NotationLaw over every identifier-candidate string; '
             'every case is executed on the real functions with an environment built by the real parser.',
        design='3/C14',
        note=BASE_TRUST + 'Results are compared as multisets (listing order is not part of the property).'),
    'C15': dict(
        category='fault_enumeration',
        technique='fault catalogue and verdict function as a TLA+ module (ParserFaults.tla) enumerated by TLC; every fault '
                  'class instantiated at every matching JSON node and executed on the real parser; outcomes validated by TLC '
                  'in trace mode',
        text='ParserFaults.tla holds the grammar table of the JSON AST, the fault classes (delete/retype/retag every key and '
             'class tag, bad identifiers, empty ids, bad words, out-event rules, non-dict elements) and Expected/Allowed; TLC '
             'enumerates the catalogue, the harness applies each class at every matching node of its base documents, plus '
             'random fault pairs, random subtree replacements and arbitrary JSON values, and TLC validates that every outcome '
             'is success or a documented error consistent with the verdict.',
        design='3/C15',
        note=BASE_TRUST + 'This is a property of exception classes over inputs; TLA+ supplies the fault space and the verdict, '
             'the decision comes from running the parser on every enumerated input.'),
    'C16': dict(
        technique='TLA+ life-cycle model (ParserLifecycle.tla) checked with TLC; every enumerated call history replayed on '
                  'real DznJsonAst instances; TLC trace validation of random life cycles (DznDocTrace.tla)',
        text='ParserLifecycle.tla: instances x documents, actions New/Load/Process; the result of Process(i) is the parse of '
             "instance i's own document in every reachable state (ProcessPure, Isolated are TLC action properties); all "
             'histories of <=5/6 calls over 2 instances and 3 documents (one refused) are replayed with load_file through '
             'temp files and every process() result compared with the model.',
        design='3/C16',
        note=BASE_TRUST),
    'C03': dict(
        technique='TLA+ model (PortSelection.tla) with C03Law as TLC invariant; exhaustive replay of every enumerated '
                  '(selections, port sets) case through PortSelect/PortsSemanticsCfg/PortsCfg/match/Builder.build; TLC trace '
                  'validation of random larger configurations',
        text='PortSelection.tla has one operator per validation point of the code (PortsSemanticsCfg, PortsCfg, match, '
             'exposure) in code order, the five must-reject situations of the statement as MustReject, and Assignment; '
             'C03Law is a TLC invariant over every pair of selections (wildcards, all non-empty subsets of 3 names + an '
             'unknown name + a name of the opposite side) per side x every provides/requires/injected port set; every case '
             'is configured and built on a generated component with exactly those ports.',
        design='3/C03',
        note=BASE_TRUST + 'Naming an injected port is accepted (never exposed); rejections beyond the five listed situations '
             '(equal wildcards) are allowed either way.'),
    'C07': dict(
        technique='TLA+ model (Scoping.tla Resolve + ShellStructure.tla) with C07Law as TLC invariant; exhaustive replay of '
                  'enumerated name-clash environments through Builder.build, comparing the bound declaration; TLC trace '
                  'validation of every find_fqn call the builder makes; shadowing shapes compiled against a type-distinct '
                  'model header with static_asserts on the accessor types',
        text='ShellStructure.tla resolves the three referring sites (port type from the encapsulee scope, parameter type and '
             'claim-reply enum from the interface scope) with Resolve over the scope chain; TLC enumerates every subset of '
             '5 scopes declaring the name, a same-named declaration of another kind, 5 spellings and 3 referring scopes per '
             'site (two interfaces in different namespaces for parameter types); build must succeed iff exactly one '
             'declaration of the right kind is on the chain, and the generated shell must be bound to that one.',
        design='3/C07',
        note=BASE_TRUST + 'Binding is read from Builder._recipe and the generated lambda signatures at this level; the compiled '
             'level (distinct C++ types) belongs to the C++ checks.'),
    'C08': dict(
        technique='TLA+ trace specification (BuildHistory.tla/BuildHistoryTrace.tla) that infers the function (model, '
                  'configuration) -> output from build events recorded in child interpreters with different PYTHONHASHSEED, '
                  'set construction orders and builder reuse; scenario space enumerated by TLC (BuildHistoryMC.tla)',
        text='Every build event carries (key = document + configuration content, output digest, md5 check); the environment '
             '(hash seed, set construction order, process, builder instance) is deliberately not part of the key; TLC '
             'rejects the first event that makes the inferred F a relation. TLC enumerates the 56 configurations naming 2-3 '
             'ports explicitly; each is built under 8/32 seeds x up to 6 construction orders.',
        design='3/C08',
        note=BASE_TRUST + 'MD5 is recomputed with hashlib (outside TLA+) and logged as a boolean the trace spec requires.'),
    'C12': dict(
        technique='TLC enumerates all build histories (BuildHistoryMC.tla); each is executed in one interpreter with deep '
                  'input digests; events plus fresh-process reference events are validated by BuildHistoryTrace.tla',
        text='Histories of <=2/3 builds over shared/distinct parsed models x 8 configurations (valid, multi-client, refused at '
             'construction, refused by build, two prefixes with colliding file names) x shared/fresh Builder; the trace spec '
             'requires unchanged input digests, outputs equal to the function inferred from fresh-process builds, and '
             'support files equal to stand-alone generation.',
        design='3/C12',
        note=BASE_TRUST + '"Observably unchanged" = equal deep structural digest.'),
    'C13': dict(
        technique='TLA+ model of the build decision (ShellStructure.tla BuildOutcome) with C13Law as TLC invariant; every '
                  'valid family member and every single-fault variation replayed through Builder.build under a watchdog; '
                  'TLC trace validation (ShellTrace.tla) of random models x random configurations',
        text='BuildOutcome is a total function to Ok or a named error (encapsulee, port type none/wrong-kind/ambiguous, '
             'selection, unassigned, multi-client x7, formal types only for ports routed through the dispatcher); TLC evaluates '
             'it on 36 valid bases x 24 fault kinds; the real build must succeed with exactly the 8 expected file names or fail '
             'by a raise statement inside dznpy with a library error type; random models are judged by the same operator in '
             'trace mode.',
        design='3/C13',
        note=BASE_TRUST + 'Lenient reading: a worded ValueError/TypeError raised deliberately by dznpy counts as diagnosed.'),
    'C19': dict(
        technique='TLA+ comment model (TextBlock.tla IsComment, Indent.tla) with CommentLaw/RenderReadOnly checked by TLC; '
                  'exhaustive replay into cpp_gen.Comment; TLC trace validation; build-level part via BuildHistoryTrace.tla '
                  '(non-comment output as an inferred function of the configuration without copyright/creator)',
        text='Every content value and every create/append/+=/render history is rendered by the real Comment and compared with '
             'the model; for builds, copyright/creator variants (all line-break characters, */, #include, };) must leave the '
             'non-comment lines of all eight files unchanged.',
        design='3/C19',
        note=BASE_TRUST + 'A comment line is a line starting with //; Comment + x and explicit indent() on a Comment are outside '
             'the statement.'),
    'C20': dict(
        technique='TLA+ token-level model of cpp_gen (CppGen.tla) with SameEntity/NoDefWhenInitialised as TLC invariants; '
                  'exhaustive replay of all enumerated descriptions through as_decl/as_def/str() with a signature '
                  'tokenizer; TLC-pool compositions compiled with g++ -fsyntax-only',
        text='CppGen.tla gives, for every function/constructor/destructor description, the token sequence of the '
             'declaration and of the definition (defaults and virtual/static/explicit/override/= init only in the '
             'declaration, owner qualification in the definition, no definition when initialised) and of namespace/struct/'
             'class blocks; TLC enumerates 31k descriptions, the real renderings are tokenised and compared; random '
             'compositions of well-formed members in a class in a namespace are accepted by g++.',
        design='3/C20',
        note=BASE_TRUST + 'The compiler (g++ 12, -std=c++17, errors only) is the oracle for the last clause; compositions are '
             'restricted to member combinations C++ itself allows.'),
    'C01': dict(
        technique='TLA+ behavioural model of the compiled shell (ShellRuntime.tla) with ExactlyOnce/ReplyCarried as TLC '
                  'invariants; TLC behaviours replayed on the real generated shell compiled against a mock Dezyne runtime; '
                  'TLC trace validation (ShellRuntimeTrace.tla) of random command scripts on random models; the same shells '
                  'driven under AddressSanitizer/UBSan',
        text='ShellRuntime.tla prescribes, per command, every observable of the compiled shell (which handler gets which '
             'event with which argument values in which context, queue, blocked callers, replies and out-argument values '
             'handed back) from the routing table; ShellRuntimeMC.tla explores all interleavings of calls, raises, component '
             'events and dispatcher steps to depth 4/5 for two fixed programs with C01 as invariants, every behaviour is '
             'replayed on the compiled shell; 24/160 random models x 6/10 random scripts are validated by TLC.',
        design='3/C01',
        note=BASE_TRUST + 'Trusted: the mock Dezyne 2.17 runtime and the mock of the Dezyne-generated model header under '
             '/verif/cxx and harness/cxxgen.py; g++ 12. Headers are compiled from copies with #pragma once prepended and '
             'as a single translation unit (work-arounds for C06 known findings F and G).'),
    'C02': dict(
        technique='same model and machinery as C01, judged on execution context, queueing and blocking (ContextLaw, QueueLaw, '
                  'BlockLaw as TLC invariants; accessor types as static_asserts generated from the routing table; '
                  'AddressSanitizer/UBSan twins for the lifetime of deferred arguments)',
        text='MTS provides in-events must queue a closure and block the caller until the dispatcher step that runs it, with '
             'the handler executing on the dispatcher thread; MTS requires out-events must queue a copy and return at once; '
             'STS events run on the caller\'s thread and never touch the queue; Sts<I>/Mts<I> accessor types are checked at '
             'compile time, port identity (STS accessor = the component\'s own port) at run time.',
        design='3/C02',
        note=BASE_TRUST + 'Trusted base as C01. By-reference capture of deferred arguments is covered by value comparison after the '
             'caller\'s frame is gone (peer threads finish before the dispatcher step).'),
    'C04': dict(
        technique='ShellRuntime.tla multi-client part (selection, ghost holder) validated against recorded histories of the '
                  'compiled shell; strict reading (receiver = holder) evaluated by the trace spec on every real execution; '
                  'TLC behaviours of ShellRuntimeMC.tla replayed; invalid settings via ShellCases.tla fault cases',
        text='Random histories of claims with scripted replies, releases, other in-events and component out-events by 1-3 '
             'registered clients on interfaces with arbitrary claim/release names and formals; every delivery must go to the '
             'selected client, replies back to the caller through the dispatcher; the strict statement is evaluated on each '
             'execution and divergences are matched against the listed known finding H.',
        design='3/C04',
        note=BASE_TRUST + 'Trusted base as C01. Known finding H (Deselect ignores the identifier) is modelled as the shipped '
             'behaviour while listed; any other divergence is a violation.'),
    'C09': dict(
        technique='ShellRuntime.tla Construct action validated against the compiled shell constructed with all 8 locator '
                  'contents per program (TLC trace validation)',
        text='For both origins and 24/160 random models: exception type, identity of locator/pump/runtime seen by the mock '
             'component, number of services, unchanged user locator, presence and identity of Locator() (SFINAE), and events '
             'through every mechanism afterwards must be what the model prescribes.',
        design='3/C09',
        note=BASE_TRUST + 'Trusted base as C01.'),
    'C10': dict(
        technique='ShellRuntime.tla Bind/Register/Final actions validated against the compiled shell with every single '
                  'binding omission (TLC trace validation), against the shipped rule and against the rule the property '
                  'states (known finding R = the traces only the shipped rule explains)',
        text='All bound / exactly one required user binding missing (any port, direction, registered client) / one component '
             'handler missing / repeated final construction / registration after final construction: Ok, binding_error or '
             'runtime_error and the recorded parent must be what the model prescribes.',
        design='3/C10',
        note=BASE_TRUST + 'Trusted base as C01; check_bindings of the mock ports mirrors the Dezyne one (every in and out event).'),
    'C06': dict(
        category='translation_validation',
        technique='include-graph model (IncludeGraph.tla, facts extracted from the returned files) enumerates every translation '
                  'unit over the returned headers and predicts the verdict; each is given to g++ (thorough: and clang++), '
                  'plus a separate-translation-unit link+run and all prefix pairs; the compiler is the judge',
        text='For special models (global-namespace component, empty interface, no ports) and random models incl. multi-client, '
             'the returned files are written out verbatim and every inclusion sequence of length 1..2/3 (order and '
             'multiplicity) plus the source file is compiled; quoted includes must be closed over the returned files; the '
             'shell is linked from another translation unit with a user of every member and constructed; support headers of '
             '5 prefixes are compiled pairwise together. Rejections are matched against the four listed known findings '
             '(F no include guards, J ILog lacks <stdexcept>, G unnamed namespace for a global encapsulee, K file-name '
             'collision); anything else is a violation.',
        design='3/C06',
        note='Trusted: the mock Dezyne runtime headers (mirroring the standard headers the real ones include), the mock model '
             'header, g++ 12/clang++ 14 (-std=c++17, errors only). TLA+ supplies the scenario space and a prediction; whether a '
             'text is valid C++ is decided by the compilers.'),
    'C11': dict(
        technique='implementation-shaped TLA+ interleaving model (MultiClientConc.tla) checked exhaustively with TLC for mutual '
                  'exclusion, deadlock freedom and HolderReceives; a state cover of its behaviours replayed on the real compiled '
                  'shell with real threads under a cooperative scheduler (yield points: ILog callbacks, every lock operation of '
                  'generated code, out-event handler); ThreadSanitizer run; MutexWrapped.tla replayed on the generated helper',
        text='MultiClientConc.tla has one action per step the generated lambdas really take (forwarded call, dispatcher step, '
             'Select/Deselect as separate steps on the client thread, delivery while holding the lock) and two switches for the '
             'listed known findings H and I; TLC explores 2 clients x 2 cycles and 3 clients x 1 cycle with stray releases and '
             'out-events at every point. One shortest schedule per reachable state (about 1100) is replayed on real threads: '
             'after every step the position of every thread, the receiver of the out-event, replies, the number of critical '
             'sections per step and (at the end) that Select/Deselect cannot proceed while a delivery holds the lock are '
             'compared with the model. The strict property is evaluated on the model and on every real execution; divergences '
             'must match H or I. The replay first determines which design of the model the code conforms to (shipped, or '
             'Deselect-by-identity = H repaired) and model-checks that one; the thorough tier also replays the 6120 schedules of '
             'the three-client state cover. Log lines are passed through (their number and wording are free).',
        design='3/C11',
        note=BASE_TRUST + 'Interleavings are explored at the granularity of the yield points; finer ones only by the '
             'ThreadSanitizer stress run (3 clients, free-running dispatcher). Trusted: mock runtime with threaded pump, the '
             'scheduler in the generated driver, the pthread_mutex_lock interposer, g++ 12 TSan.'),
}

NOT_YET = {}


def main():
    props = [json.loads(l) for l in open(os.path.join(VERIF, 'properties.jsonl'), encoding='utf-8')]
    checks = []
    not_applicable = []
    for prop in props:
        pid = prop['id']
        if pid in CHECKS:
            c = CHECKS[pid]
            checks.append({
                'property_id': pid,
                'quick_cmd': f'./check {pid} --tier quick',
                'thorough_cmd': f'./check {pid} --tier thorough',
                'evidence_file': f'/verif/evidence/{pid}.json',
                'replay_cmd_template': f'./check {pid} --replay {{path}}',
                'engine': 'tlc-conformance',
                'level_claimed': {'category': c.get('category', 'model_checking'), 'text': c['text'],
                                  'design_ref': c['design']},
                'level_note': c['note'],
                'technique': c['technique'],
            })
        else:
            not_applicable.append({'property_id': pid, 'reason': NOT_YET.get(
                pid, 'check not built yet in this round (planned: TLA+ model + TLC + conformance, see DESIGN.md section 3)')})
    manifest = {
        'version': 1,
        'setup_cmd': './setup.sh',
        'hooks': {
            'guard': 'DZNPY_VERIF',
            'enable': 'no source hooks are needed: all abstract state is observable through the public API, wrapped '
                      'function objects, and the mock Dezyne runtime; checks import /repo/src directly',
            'baseline_off_cmd': 'cd /repo && /venv/bin/python -m pytest -ra -q -p no:cacheprovider --timeout=900 '
                                '--continue-on-collection-errors',
            'source_commits': [],
            'add_only': True,
        },
        'engines': [{'name': 'tlc-conformance', 'path': '/verif/check',
                     'serves_properties': sorted(CHECKS),
                     'kind_free_text': 'explicit TLA+ specifications under /verif/spec checked with TLC, bound to the '
                                       'implementation by replay of TLC-generated cases/behaviours and by TLC '
                                       'validation of traces recorded from the real code'}],
        'checks': checks,
        'not_applicable': not_applicable,
        'notes': 'See DESIGN.md. fix: commits in /repo are recorded in known_findings.json (fixed entries).',
    }
    with open(os.path.join(VERIF, 'MANIFEST.json'), 'w', encoding='utf-8') as fil:
        json.dump(manifest, fil, indent=1)
    print(f'{len(checks)} checks, {len(not_applicable)} not claimed')


if __name__ == '__main__':
    main()
