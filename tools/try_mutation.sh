#!/bin/bash
# usage: try_mutation.sh <diff> <check-id>... ; applies the diff to /repo, runs the quick checks, reverts.
diff=$1; shift
cd /repo || exit 2
if [ -n "$(git status --porcelain -- src)" ]; then echo "repo dirty"; exit 2; fi
git apply "$diff" || { echo "apply failed"; exit 2; }
trap 'git -C /repo checkout -- . ' EXIT
for id in "$@"; do
  out=$(cd /verif && ./check "$id" 2>&1); rc=$?
  echo "== $id rc=$rc: $(echo "$out" | grep -c '^VIOLATION') violations"
  echo "$out" | grep -A1 '^VIOLATION' | head -6
  echo "$out" | grep 'MACHINERY' | head -3
done
