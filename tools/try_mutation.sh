#!/bin/bash
# usage: try_mutation.sh <diff> <check-id>...
# Applies the diff in a throw-away worktree of /repo (outside /repo and /verif), runs the quick checks against it
# (VERIF_REPO), removes the worktree.  Prints one summary line per check.
diff=$(realpath "$1"); shift
wt=/var/tmp/mutwt-$$
for try in 1 2 3 4 5; do git -C /repo worktree add -q --detach "$wt" HEAD 2>/dev/null && break; sleep $((RANDOM % 4 + 1)); done
[ -d "$wt" ] || { echo "worktree add failed"; exit 2; }
trap 'git -C /repo worktree remove --force "$wt" >/dev/null 2>&1' EXIT
( cd "$wt" && git apply "$diff" ) || { echo "apply failed: $diff"; exit 2; }
for id in "$@"; do
  out=$(cd /verif && VERIF_REPO="$wt" VERIF_SCRATCH=/var/tmp ./check "$id" 2>&1); rc=$?
  echo "== $(basename $(dirname $diff))/$(basename $diff) $id rc=$rc violations=$(echo "$out" | grep -c '^VIOLATION') :: $(echo "$out" | grep -A1 '^VIOLATION' | sed -n 2p | cut -c1-260)"
  echo "$out" | grep 'MACHINERY' | head -3
done
