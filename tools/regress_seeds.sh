#!/bin/bash
# usage: regress_seeds.sh [parallelism]   -- every seeded change against the first check that is recorded as detecting it
# (meta.json detected_by); prints the seeds that are no longer detected.  Uses throw-away worktrees, never touches /repo.
par=${1:-8}
cd /verif/seeded
for d in */; do
  n=${d%/}
  c=$(python3 -c "import json,sys; m=json.load(open('$n/meta.json')); print((m.get('detected_by') or [''])[0])")
  [ -n "$c" ] && echo "$n $c"
done | xargs -P $par -L 1 bash -c 'out=$(timeout 3600 /verif/tools/try_mutation.sh /verif/seeded/$0/patch.diff $1 2>&1 | grep "^=="); case "$out" in *"rc=1"*) echo "ok $0 $1";; *) echo "LOST $0 $1 :: $out";; esac'
