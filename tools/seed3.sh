#!/bin/bash
# usage: seed3.sh <Cxx> <A|B> <check-id>...   -- files a round-3 sub-agent delivery (/tmp/mut3-Cxx) as seeded/<Cxx>-r3<A|B>
pid=$1; which=$2; shift 2
dir=/tmp/mut3-$pid
cp $dir/demo_$which.py $dir/${which}_demo.py
/venv/bin/python - "$dir" "$which" "$pid" <<'PY'
import sys, re, json
d, w, pid = sys.argv[1:4]
notes = open(f'{d}/notes.md', encoding='utf-8').read()
parts = re.split(r'(?m)^##+ ', notes)
sec = next((p for p in parts if re.match(rf'(Change )?{w}\b', p)), '')
files = re.findall(r'^diff --git a/(\S+)', open(f'{d}/{w}.diff').read(), re.M)
text = ' '.join(sec.split())
json.dump({'property': pid, 'summary': text[:1500], 'needs': '', 'files': files,
           'origin': 'round 3: independent sub-agent given only the property text, the summaries of earlier seeds and a scratch worktree'},
          open(f'{d}/{w}_meta.json', 'w'), indent=1)
PY
exec /venv/bin/python /verif/tools/seed.py $dir $which $pid-r3$which "$@"
