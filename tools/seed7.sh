#!/bin/bash
# usage: seed7.sh <tag> <A|B> <Cxx> <check-id>...  -- files a round-7 delivery (/tmp/mut7-<tag>) as seeded/<Cxx>-r7<A|B>
tag=$1; which=$2; pid=$3; shift 3
dir=/tmp/mut7-$tag
cp $dir/demo_$which.py $dir/${which}_demo.py
/venv/bin/python - "$dir" "$which" "$pid" <<'PY'
import sys, re, json
d, w, pid = sys.argv[1:4]
notes = open(f'{d}/notes.md', encoding='utf-8').read()
parts = re.split(r'(?m)^##+ ', notes)
sec = next((p for p in parts if re.match(rf'(Change )?{w}\b', p)), '')
files = re.findall(r'^diff --git a/(\S+)', open(f'{d}/{w}.diff').read(), re.M)
text = ' '.join(sec.split())
json.dump({'property': pid, 'summary': text[:1500], 'needs': '', 'files': files,
           'origin': 'round 7 (single property, unusual triggers): independent sub-agent given only the property text, the summaries of earlier seeds and a scratch worktree'},
          open(f'{d}/{w}_meta.json', 'w'), indent=1)
PY
exec /venv/bin/python /verif/tools/seed.py $dir $which $pid-r7$which "$@"
