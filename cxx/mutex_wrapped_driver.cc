// Driver for the generated <prefix>_MutexWrapped.hh (property C11, second sentence): two worker threads execute
// acq / inc / reset / exit on one MutexWrapped<int>; after every command the observed owner, the blocked threads and
// the protected value are printed as one JSON line.  Commands: "<op> <thread>" with thread x or y.
#include MW_HEADER
#include <atomic>
#include <chrono>
#include <condition_variable>
#include <deque>
#include <iostream>
#include <map>
#include <optional>
#include <sstream>
#include <string>
#include <thread>

static Dzn::MutexWrapped<int> protectee;
struct worker
{
  std::string name;
  std::mutex m;
  std::condition_variable cv;
  std::deque<std::string> todo;
  std::atomic<int> state{0};       // 0 idle, 1 acquiring, 2 holding
  std::atomic<int> done{0};
  std::thread th;
};
static std::atomic<int> shadow{0};
static std::atomic<int> in_critical{0};
static std::atomic<bool> overlap{false};

static void run(worker* w)
{
  using handle_t = decltype(protectee());
  std::optional<handle_t> h;
  for (;;)
  {
    std::string op;
    {
      std::unique_lock<std::mutex> lock(w->m);
      w->cv.wait(lock, [&] { return !w->todo.empty(); });
      op = w->todo.front();
      w->todo.pop_front();
    }
    if (op == "quit") return;
    if (op == "acq") { w->state = 1; h.emplace(protectee()); w->state = 2; }
    else if (op == "inc" && h && *h)
    {
      if (in_critical.fetch_add(1) != 0) overlap = true;
      int v = **h; std::this_thread::sleep_for(std::chrono::milliseconds(1)); **h = v + 1; shadow = v + 1;
      in_critical.fetch_sub(1);
    }
    else if (op == "reset" && h) { h->reset(); w->state = 0; }                 // explicit release, handle stays in scope
    else if (op == "exit" && h) { { handle_t tmp = std::move(*h); } h.reset(); w->state = 0; }   // scope exit
    ++w->done;
  }
}

int main()
{
  std::map<std::string, worker*> ws;
  for (auto n : {"x", "y"}) { auto* w = new worker; w->name = n; w->th = std::thread(run, w); ws[n] = w; }
  std::string line;
  while (std::getline(std::cin, line))
  {
    std::istringstream in(line);
    std::string op, t; in >> op >> t;
    if (op == "quit") break;
    worker* w = ws[t];
    bool held = false;
    for (auto& kv : ws) if (kv.second->state == 2) held = true;
    int before = w->done;
    { std::unique_lock<std::mutex> lock(w->m); w->todo.push_back(op); }
    w->cv.notify_all();
    // No verdict depends on how fast a thread is scheduled: first wait (long) until the worker has picked the command up
    // (state 1 = inside protectee(), or the command is done); only an acquisition that must NOT complete (the lock is
    // held) is then given a short grace period in which a broken helper would let it through.
    auto pickup = std::chrono::steady_clock::now() + std::chrono::seconds(30);
    while (w->done == before && !(op == "acq" && w->state == 1) && std::chrono::steady_clock::now() < pickup)
      std::this_thread::sleep_for(std::chrono::microseconds(200));
    auto deadline = std::chrono::steady_clock::now() + std::chrono::milliseconds(op == "acq" && held ? 60 : 30000);
    while (w->done == before && std::chrono::steady_clock::now() < deadline) std::this_thread::sleep_for(std::chrono::microseconds(200));
    if (op == "reset" || op == "exit")      // a waiter (if any) must now get the lock
    {
      auto d2 = std::chrono::steady_clock::now() + std::chrono::seconds(30);
      bool waiter = false;
      for (auto& kv : ws) if (kv.second->state == 1) waiter = true;
      while (waiter && std::chrono::steady_clock::now() < d2)
      {
        waiter = false;
        for (auto& kv : ws) if (kv.second->state == 1) waiter = true;
        std::this_thread::sleep_for(std::chrono::microseconds(200));
      }
    }
    std::string owner = "none";
    std::ostringstream waiting;
    bool first = true;
    for (auto& kv : ws)
    {
      if (kv.second->state == 2) owner = kv.first;
      if (kv.second->state == 1) { waiting << (first ? "" : ",") << "\"" << kv.first << "\""; first = false; }
    }
    std::cout << "{\"owner\":\"" << owner << "\",\"waiting\":[" << waiting.str() << "],\"value\":" << shadow.load()
              << ",\"overlap\":" << (overlap ? "true" : "false") << "}" << std::endl;
  }
  std::_Exit(0);
}
