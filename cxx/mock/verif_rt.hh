// Verification harness runtime: event log, scripted replies, cooperative scheduler (quiescence detection and
// yield points).  Shared by the mock model header (component side) and the generated driver (user side).
#ifndef VERIF_RT_HH
#define VERIF_RT_HH
#include <atomic>
#include <chrono>
#include <condition_variable>
#include <functional>
#include <iostream>
#include <map>
#include <mutex>
#include <set>
#include <sstream>
#include <string>
#include <thread>
#include <vector>
#include <dzn/pump.hh>

namespace verif
{
  struct entry
  {
    std::string side;    // "comp": arrived at the wrapped component; "user": arrived at a handler on the boundary
    std::string port, event, ctx, client;
    std::vector<int> args;      // values of the in/inout arguments as received
    std::vector<int> outs;      // values written to out/inout arguments by the handler
    int reply;
    bool locked;                // (multi-client) the selector lock was held by this thread during delivery
  };

  struct state
  {
    std::mutex m;
    std::condition_variable cv;
    std::vector<entry> log;
    size_t reported = 0;
    std::map<std::string, int> script;         // "port.event" -> reply value (index for enums, 0/1 for bool)
    std::map<std::string, std::string> react;  // "port.inevent" -> "port.outevent" the component raises while handling it
    int out_counter = 0;
    std::thread::id disp;
    bool disp_known = false;
    // scheduler
    int clients_active = 0;                    // client threads started and not finished
    int shell_waiting = 0;                     // callers blocked in dzn::shell whose closure has not completed
    int parked = 0;                            // threads parked at a yield point
    bool yielding = false;                     // yield points active (C11 schedules)
    std::vector<std::string> yield_at;         // label prefixes at which threads park (empty: every yield point)
    // well-behaved arbiter: "port" -> {claim event, release event, grant value, deny value, claimed}
    struct arbiter_t { std::string claim, release; int grant, deny; bool claimed; };
    std::map<std::string, arbiter_t> arbiter;
    std::map<std::string, std::string> at;     // thread name -> label of the yield point it is parked at
    std::set<std::string> go;                  // thread names granted to continue
    std::map<std::string, std::string> results;// finished calls: thread name -> JSON
  };
  inline state& S() { static state s; return s; }
  using hscope = dzn::verif::hscope;
  inline thread_local std::string tname = "main";

  inline std::string ctx_name()
  {
    state& s = S();
    if (s.disp_known && std::this_thread::get_id() == s.disp) return "disp";
    return tname;
  }
  inline int reply_for(const std::string& port, const std::string& event)
  {
    hscope hs_;
    state& s = S();
    std::unique_lock<std::mutex> lock(s.m);
    auto ar = s.arbiter.find(port);
    if (ar != s.arbiter.end())
    {
      if (event == ar->second.claim) { if (ar->second.claimed) return ar->second.deny; ar->second.claimed = true; return ar->second.grant; }
      if (event == ar->second.release) { ar->second.claimed = false; return 0; }
    }
    auto it = s.script.find(port + "." + event);
    return it == s.script.end() ? 0 : it->second;
  }
  inline int next_out()
  {
    hscope hs_;
    state& s = S();
    std::unique_lock<std::mutex> lock(s.m);
    return 900 + (++s.out_counter);
  }
  inline void record(const entry& e)
  {
    hscope hs_;
    state& s = S();
    std::unique_lock<std::mutex> lock(s.m);
    s.log.push_back(e);
  }
  // a yield point: the calling thread announces where it is and waits for the scheduler's grant
  inline void yield_point(const std::string& label)
  {
    hscope hs_;
    state& s = S();
    std::unique_lock<std::mutex> lock(s.m);
    if (!s.yielding || tname == "main") return;
    if (!s.yield_at.empty())
    {
      bool hit = false;
      for (auto& pre : s.yield_at) if (label.compare(0, pre.size(), pre) == 0) hit = true;
      if (!hit) return;
    }
    std::string me = ctx_name() == "disp" ? "disp" : tname;
    s.at[me] = label;
    ++s.parked;
    s.cv.notify_all();
    s.cv.wait(lock, [&] { return s.go.count(me) > 0; });
    s.go.erase(me);
    s.at.erase(me);
    --s.parked;
    s.cv.notify_all();          // the scheduler waits for "has left its yield point"
  }
  inline std::string json_ints(const std::vector<int>& v)
  {
    std::ostringstream o;
    o << "[";
    for (size_t i = 0; i < v.size(); ++i) o << (i ? "," : "") << v[i];
    o << "]";
    return o.str();
  }
  inline std::string json_str(const std::string& s)
  {
    std::string o = "\"";
    for (char c : s) { if (c == '"' || c == '\\') o += '\\'; if (c == '\n') { o += "\\n"; continue; } o += c; }
    return o + "\"";
  }
}
#endif
