// Mock of dzn/pump.hh: the dispatcher.  Two modes (process-wide, chosen by the driver before any pump exists):
//   stepped      - closures are queued; a dedicated worker thread runs exactly one closure per step() grant
//   free running - the worker thread runs closures as they arrive (used for ThreadSanitizer / stress runs)
// dzn::shell(pump, f) queues f and blocks the caller until the worker has run it, handing back f's result -
// as the real one does with a promise/future pair.
#ifndef VERIF_MOCK_DZN_PUMP_HH
#define VERIF_MOCK_DZN_PUMP_HH
#include <atomic>
#include <condition_variable>
#include <deque>
#include <functional>
#include <future>
#include <mutex>
#include <thread>
#include <type_traits>
#include <dzn/meta.hh>

namespace dzn
{
  namespace verif
  {
    // hooks the driver installs (all optional)
    struct hooks
    {
      std::function<void(const void*)> shell_enter;  // a thread is about to queue a blocking closure (token identifies the call)
      std::function<void(const void*)> shell_done;   // on the dispatcher: that closure has run, its caller is about to be released
      std::function<void(bool)> on_post;             // a closure was queued (argument: true when queued by dzn::shell)
      std::function<void()> closure_begin;           // on the dispatcher: a closure is about to run (yield point)
    };
    inline hooks& the_hooks() { static hooks h; return h; }
    // > 0 while the current thread executes harness/mock code (its lock operations are not yield points)
    inline int& harness_depth() { static thread_local int d = 0; return d; }
    struct hscope { hscope() { ++harness_depth(); } ~hscope() { --harness_depth(); } };
    inline std::atomic<bool>& free_running() { static std::atomic<bool> f{false}; return f; }
  }

  struct pump
  {
    pump() : m_stop(false), m_grants(0), m_executed(0), m_posted(0), m_running(false),
             m_worker([this] { worker(); }) {}
    ~pump()
    {
      {
        std::unique_lock<std::mutex> lock(m_mutex);
        m_stop = true;
      }
      m_cv.notify_all();
      if (m_worker.joinable()) m_worker.join();
    }
    pump(const pump&) = delete;
    pump& operator=(const pump&) = delete;

    // as in Dezyne: stop the worker thread for good (pending closures are dropped)
    void stop()
    {
      {
        std::unique_lock<std::mutex> lock(m_mutex);
        m_stop = true;
        m_stop_called = true;
      }
      m_cv.notify_all();
      if (m_worker.joinable() && std::this_thread::get_id() != m_worker.get_id()) m_worker.join();
    }
    // harness-only observer (not part of the Dezyne API)
    bool verif_stopped() const { std::unique_lock<std::mutex> lock(m_mutex); return m_stop_called; }

    // post a closure (returns immediately)
    void operator()(const std::function<void()>& f) { post(f, false); }

    void post(const std::function<void()>& f, bool from_shell)
    { verif::hscope hs_;
      {
        std::unique_lock<std::mutex> lock(m_mutex);
        m_queue.push_back(f);
        ++m_posted;
      }
      if (verif::the_hooks().on_post) verif::the_hooks().on_post(from_shell);
      m_cv.notify_all();
    }

    // ---- harness-only interface -------------------------------------------------------------
    std::thread::id worker_id() const { return m_worker.get_id(); }
    bool in_dispatcher() const { return std::this_thread::get_id() == m_worker.get_id(); }
    size_t queued() const { verif::hscope hs_; std::unique_lock<std::mutex> lock(m_mutex); return m_queue.size(); }
    size_t posted() const { verif::hscope hs_; std::unique_lock<std::mutex> lock(m_mutex); return m_posted; }
    size_t executed() const { verif::hscope hs_; std::unique_lock<std::mutex> lock(m_mutex); return m_executed; }
    // run exactly one queued closure on the worker thread and wait until it has returned
    bool step()
    { verif::hscope hs_;
      std::unique_lock<std::mutex> lock(m_mutex);
      if (m_queue.empty()) return false;
      size_t target = m_executed + 1;
      ++m_grants;
      m_cv.notify_all();
      m_cv.wait(lock, [&] { return m_executed >= target; });
      return true;
    }
    // grant one closure without waiting for it to finish (the scheduler watches progress itself)
    bool grant()
    { verif::hscope hs_;
      std::unique_lock<std::mutex> lock(m_mutex);
      if (m_queue.empty()) return false;
      size_t target = m_started + 1;
      ++m_grants;
      m_cv.notify_all();
      m_cv.wait(lock, [&] { return m_started >= target; });     // the worker has picked the closure up (running() is true now)
      return true;
    }
    bool running() const { verif::hscope hs_; std::unique_lock<std::mutex> lock(m_mutex); return m_running; }

  private:
    void worker()
    {
      for (;;)
      {
        verif::harness_depth() = 1;
        std::function<void()> f;
        {
          std::unique_lock<std::mutex> lock(m_mutex);
          m_cv.wait(lock, [&] { return m_stop || (!m_queue.empty() && (verif::free_running() || m_grants > 0)); });
          if (m_stop) return;
          f = m_queue.front();
          m_queue.pop_front();
          if (!verif::free_running()) --m_grants;
          m_running = true;
          ++m_started;
        }
        m_cv.notify_all();
        if (verif::the_hooks().closure_begin) verif::the_hooks().closure_begin();
        verif::harness_depth() = 0;
        f();
        verif::harness_depth() = 1;
        {
          std::unique_lock<std::mutex> lock(m_mutex);
          ++m_executed;
          m_running = false;
        }
        m_cv.notify_all();
      }
    }
    mutable std::mutex m_mutex;
    std::condition_variable m_cv;
    std::deque<std::function<void()>> m_queue;
    bool m_stop;
    bool m_stop_called = false;
    size_t m_grants, m_executed, m_posted, m_started = 0;
    bool m_running;
    std::thread m_worker;
  };

  // blocking hand-off of a closure to the dispatcher: void and value-returning closures
  template <typename L, typename R = decltype(std::declval<L>()())>
  typename std::enable_if<std::is_void<R>::value, void>::type
  shell(dzn::pump& pump, L&& l)
  {
    verif::hscope hs_;
    std::promise<void> p;
    auto& h = verif::the_hooks();
    if (h.shell_enter) h.shell_enter(&p);
    pump.post([&] { l(); verif::hscope hs2_; if (h.shell_done) h.shell_done(&p); p.set_value(); }, true);
    p.get_future().get();
  }
  template <typename L, typename R = decltype(std::declval<L>()())>
  typename std::enable_if<!std::is_void<R>::value, R>::type
  shell(dzn::pump& pump, L&& l)
  {
    verif::hscope hs_;
    std::promise<R> p;
    auto& h = verif::the_hooks();
    if (h.shell_enter) h.shell_enter(&p);
    pump.post([&] { R r = l(); verif::hscope hs2_; if (h.shell_done) h.shell_done(&p); p.set_value(std::move(r)); }, true);
    return p.get_future().get();
  }
}
#endif
