// Mock of the Dezyne 2.17 runtime header dzn/meta.hh (verification harness, see /verif/DESIGN.md).
// Mirrors the standard headers the real header pulls in, so that generated code which relies on them
// transitively is not blamed for it.
#ifndef VERIF_MOCK_DZN_META_HH
#define VERIF_MOCK_DZN_META_HH
#include <algorithm>
#include <functional>
#include <stdexcept>
#include <string>
#include <vector>
#include <map>

namespace dzn
{
  struct meta;
  namespace port
  {
    struct meta
    {
      struct
      {
        std::string name;
        const void* port;
        const void* component;
        const dzn::meta* meta;
      } provide;
      struct
      {
        std::string name;
        const void* port;
        const void* component;
        const dzn::meta* meta;
      } require;
    };
  }

  struct meta
  {
    std::string name;
    std::string type;
    const meta* parent;
    std::vector<const port::meta*> require;
    std::vector<const meta*> children;
    std::vector<std::function<void()>> ports_connected;
  };

  struct binding_error : public std::runtime_error
  {
    binding_error(const port::meta& m, const std::string& msg)
      : std::runtime_error("not connected: " + m.provide.name + "." + m.require.name + "." + msg)
    {}
  };

  inline void check_bindings(const dzn::meta* m)
  {
    for (auto& f : m->ports_connected) f();
    for (auto c : m->children) check_bindings(c);
  }
}
#endif
