// Mock of dzn/locator.hh (Dezyne 2.17 API shape): a type-indexed service map, cloneable, movable, not copyable.
#ifndef VERIF_MOCK_DZN_LOCATOR_HH
#define VERIF_MOCK_DZN_LOCATOR_HH
#include <map>
#include <stdexcept>
#include <string>
#include <typeinfo>
#include <iostream>

namespace dzn
{
  struct locator
  {
  public:
    locator() {}
    locator(locator&&) = default;
    locator& operator=(locator&&) = default;
    locator clone() const { return locator(*this); }

    template <typename T>
    locator& set(T& t, const std::string& key = "")
    {
      services[make_key<T>(key)] = &t;
      return *this;
    }
    template <typename T>
    T* try_get(const std::string& key = "") const
    {
      auto it = services.find(make_key<T>(key));
      return it == services.end() ? nullptr : reinterpret_cast<T*>(const_cast<void*>(it->second));
    }
    template <typename T>
    T& get(const std::string& key = "") const
    {
      if (T* t = try_get<T>(key)) return *t;
      throw std::runtime_error(std::string("<") + typeid(T).name() + ",\"" + key + "\"> not available");
    }
    // harness-only observer (not part of the Dezyne API)
    std::map<std::string, const void*> verif_contents() const { return services; }

  private:
    locator(const locator&) = default;
    template <typename T>
    static std::string make_key(const std::string& key) { return std::string(typeid(T).name()) + "|" + key; }
    std::map<std::string, const void*> services;      // as in Dezyne: const objects can be registered too
  };
}
#endif
