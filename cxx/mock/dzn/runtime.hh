// Mock of dzn/runtime.hh: the runtime object is an opaque, non-copyable facility here.
#ifndef VERIF_MOCK_DZN_RUNTIME_HH
#define VERIF_MOCK_DZN_RUNTIME_HH
#include <dzn/meta.hh>
#include <dzn/locator.hh>
#include <map>
#include <queue>
#include <tuple>

namespace dzn
{
  struct runtime
  {
    runtime() {}
    runtime(const runtime&) = delete;
    runtime& operator=(const runtime&) = delete;
  };
}
#endif
