#!/bin/bash
# Offline setup: nothing to download; verify the tools the checks need and pre-parse the specs.
set -e
cd "$(dirname "$0")"
command -v java >/dev/null
test -f /opt/veriftools/tla/tla2tools.jar
/venv/bin/python -c "import orjson, typing_extensions"
mkdir -p evidence replays
cd spec
for f in *.tla; do
  java -cp /opt/veriftools/tla/tla2tools.jar:/opt/veriftools/tla/CommunityModules-deps.jar tla2sany.SANY "$f" >/dev/null 2>&1 || { echo "SANY failed: $f"; exit 1; }
done
cd ..
/venv/bin/python tools/selftest.py || { echo "trace-spec self-test failed"; exit 1; }
echo "setup ok"
