SPECIFICATION SpecD
CONSTANTS
  Clients = {"A", "B", "C"}
  Cycles = 1
  MaxOuts = 2
  DeselectChecksIdentity = FALSE
  SelectInDispatcher = FALSE
  StrayRelease = FALSE
PROPERTY MutualExclusion
INVARIANT DeliveryUnderLock
INVARIANT HolderReceivesExceptKnown
CONSTRAINT EmitAll
VIEW View
