SPECIFICATION SpecD
CONSTANTS
  Clients = {"A", "B"}
  Cycles = 1
  MaxOuts = 2
  DeselectChecksIdentity = TRUE
  SelectInDispatcher = FALSE
  StrayRelease = TRUE
PROPERTY MutualExclusion
INVARIANT DeliveryUnderLock
CONSTRAINT EmitAll
VIEW View
