--------------------------- MODULE PortSelection ---------------------------
(***************************************************************************)
(* adv_shell/port_selection.py + create_dzn_elements: from a pair of port  *)
(* selections per side to one runtime semantics per exposed port, or a     *)
(* rejection (property C03).  One operator per validation point of the     *)
(* code, in the code's order.                                              *)
(* A selection is [w |-> "ALL" | "REMAINING" | "NONE" | "SET", s |-> set]. *)
(***************************************************************************)
EXTENDS Naturals, FiniteSets, TLC, Json

Wild(w)  == [w |-> w, s |-> {}]
Named(S) == [w |-> "SET", s |-> S]
Selections(Names) == {Wild("ALL"), Wild("REMAINING"), Wild("NONE")} \cup {Named(S) : S \in SUBSET Names \ {{}}}

NotEmpty(x) == x.w # "NONE"                       \* PortSelect.is_not_empty
IsAll(x)    == x.w = "ALL"

\* PortsSemanticsCfg.__post_init__
PSCRejected(sts, mts) == \/ sts = mts
                         \/ sts.s \cap mts.s # {}
                         \/ (IsAll(sts) /\ NotEmpty(mts)) \/ (NotEmpty(sts) /\ IsAll(mts))
\* PortsCfg.__post_init__: mixed STS/MTS provides ports
CfgRejected(prov) == NotEmpty(prov.sts) /\ NotEmpty(prov.mts)
\* PortsSemanticsCfg.match: explicitly configured names must be ports of that side
MatchRejected(psc, ports) == (psc.sts.s \cup psc.mts.s) \ ports # {}
\* explicit before wildcard, sts before mts
Sem(psc, p) == IF p \in psc.sts.s THEN "STS" ELSE IF p \in psc.mts.s THEN "MTS"
               ELSE IF psc.sts.w \in {"ALL", "REMAINING"} THEN "STS"
               ELSE IF psc.mts.w \in {"ALL", "REMAINING"} THEN "MTS" ELSE "UNASSIGNED"

\* P provides ports, R requires ports that are exposed, Inj injected requires ports
Exposed(P, R) == P \cup R
Assignment(prov, req, P, R) == [p \in Exposed(P, R) |-> IF p \in P THEN Sem(prov, p) ELSE Sem(req, p)]

Outcome(prov, req, P, R, Inj) ==                   \* stage order = code order
  IF PSCRejected(prov.sts, prov.mts) \/ PSCRejected(req.sts, req.mts) THEN [k |-> "reject", at |-> "PortsSemanticsCfg"]
  ELSE IF CfgRejected(prov) THEN [k |-> "reject", at |-> "PortsCfg"]
  ELSE IF MatchRejected(prov, P) \/ MatchRejected(req, R \cup Inj) THEN [k |-> "reject", at |-> "match"]
  ELSE IF \E p \in Exposed(P, R) : Assignment(prov, req, P, R)[p] = "UNASSIGNED" THEN [k |-> "reject", at |-> "expose"]
  ELSE [k |-> "assign", at |-> "build"]

(***************************************************************************)
(* The property as stated: the five situations that must be rejected.      *)
(***************************************************************************)
NamesUnknown(psc, ports)  == (psc.sts.s \cup psc.mts.s) \ ports # {}
BothSemantics(psc)        == psc.sts.s \cap psc.mts.s # {}
AllWithSomething(psc)     == (IsAll(psc.sts) /\ NotEmpty(psc.mts)) \/ (IsAll(psc.mts) /\ NotEmpty(psc.sts))
MixedProvides(prov)       == NotEmpty(prov.sts) /\ NotEmpty(prov.mts)
LeavesUnassigned(prov, req, P, R) == \E p \in Exposed(P, R) : Assignment(prov, req, P, R)[p] = "UNASSIGNED"
MustReject(prov, req, P, R, Inj) ==
  \/ NamesUnknown(prov, P) \/ NamesUnknown(req, R \cup Inj)
  \/ BothSemantics(prov) \/ BothSemantics(req)
  \/ AllWithSomething(prov) \/ AllWithSomething(req)
  \/ MixedProvides(prov)
  \/ LeavesUnassigned(prov, req, P, R)

\* "must-reject" | "must-assign" | "either" (rejections the code makes that the statement does not list:
\* equal wildcards such as NONE/NONE or REMAINING/REMAINING)
Verdict(prov, req, P, R, Inj) ==
  IF MustReject(prov, req, P, R, Inj) THEN "must-reject"
  ELSE IF Outcome(prov, req, P, R, Inj).k = "reject" THEN "either" ELSE "must-assign"

C03Law(prov, req, P, R, Inj) ==
  LET o == Outcome(prov, req, P, R, Inj) IN
  /\ (MustReject(prov, req, P, R, Inj) => o.k = "reject")                    \* the five situations
  /\ (o.k = "assign" =>
        LET f == Assignment(prov, req, P, R) IN
        /\ DOMAIN f = Exposed(P, R) /\ DOMAIN f \cap Inj = {}                  \* exactly the exposed ports
        /\ \A p \in DOMAIN f : f[p] \in {"STS", "MTS"}                         \* exactly one semantics
        /\ \A p \in P : (p \in prov.sts.s => f[p] = "STS") /\ (p \in prov.mts.s => f[p] = "MTS")
        /\ \A p \in R : (p \in req.sts.s => f[p] = "STS") /\ (p \in req.mts.s => f[p] = "MTS")
        /\ \A p \in P : f[p] = "MTS" => p \in prov.mts.s \/ prov.mts.w \in {"ALL", "REMAINING"}
        /\ \A p \in P : f[p] = "STS" => p \in prov.sts.s \/ prov.sts.w \in {"ALL", "REMAINING"})
=============================================================================
