SPECIFICATION Spec
CONSTANTS
  PNames = {"a", "b", "c"}
  RNames = {"x", "y", "z"}
  Side = "requires"
INVARIANT Law
CONSTRAINT Emit
CHECK_DEADLOCK FALSE
