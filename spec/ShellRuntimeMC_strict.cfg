SPECIFICATION Spec
CONSTANT MaxSteps = 3
INVARIANT ExactlyOnce
INVARIANT ReplyCarried
INVARIANT ContextLaw
INVARIANT QueueLaw
INVARIANT BlockLaw
INVARIANT OnlyHolderReceives
INVARIANT HolderReceives
CONSTRAINT Emit
CHECK_DEADLOCK FALSE
