SPECIFICATION TSpec
CONSTRAINT Progress
POSTCONDITION Accepted
CHECK_DEADLOCK FALSE
