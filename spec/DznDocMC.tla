----------------------------- MODULE DznDocMC -----------------------------
EXTENDS DznDocCases
NsSmall == { <<"A">>, <<"B">>, <<"A", "B">> }
KindsSmall == {"component", "interface", "enum", "extern", "import"}
KindsAll == {"component", "system", "foreign", "interface", "enum", "subint", "extern", "import", "file-name"}
KindsOne == {"enum"}
NamesOne == { <<"X">> }
NamesTwo == { <<"X">>, <<"A">> }
NamesMulti == { <<"X">>, <<"A", "X">> }
=============================================================================
