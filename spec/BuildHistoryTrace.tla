-------------------------- MODULE BuildHistoryTrace --------------------------
(***************************************************************************)
(* One trace = all builds of one scenario family (any number of processes, *)
(* seeds, orders, histories), in any order; F and G are inferred along it. *)
(***************************************************************************)
EXTENDS BuildHistory, TLCExt, Json, IOUtils

Traces == ndJsonDeserialize(IOEnv.TRACE_FILE)
VARIABLES t, l, F, G
vars == <<t, l, F, G>>
Ev == Traces[t].events
Empty == ("" :> "")        \* a dummy entry: TLC represents the empty function as the empty tuple

TInit == t \in DOMAIN Traces /\ l = 1 /\ F = Empty /\ G = Empty
TNext == /\ l <= Len(Ev) /\ l' = l + 1 /\ t' = t
         /\ Explained(F, G, Ev[l])
         /\ F' = Extend(F, Ev[l].key, Ev[l].out)
         /\ G' = IF Ev[l].ok THEN Extend(G, Ev[l].ckey, Ev[l].ncout) ELSE G
TSpec == TInit /\ [][TNext]_vars
ASSUME \A i \in DOMAIN Traces : TLCSet(i, 0)
Progress == TLCSet(t, IF TLCGet(t) < l - 1 THEN l - 1 ELSE TLCGet(t))
Rejected == {i \in DOMAIN Traces : TLCGet(i) < Len(Traces[i].events)}
Accepted == \A i \in Rejected : PrintT(<<"REJECTED", Traces[i].id, TLCGet(i) + 1>>)
=============================================================================
