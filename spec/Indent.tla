------------------------------ MODULE Indent ------------------------------
(***************************************************************************)
(* text_gen.Indentizer as a configuration algebra.                         *)
(*   cfg == [tab |-> BOOLEAN, n |-> Nat, mode |-> "none"|"all"|"first",    *)
(*           glyph |-> string]                                             *)
(* ToList is Indentizer.to_list applied to a list of strings (one string   *)
(* per line - to_list never splits at line breaks), ToStr is to_str.       *)
(***************************************************************************)
EXTENDS Text

Spaces(n) == [i \in 1..n |-> SP]

\* __post_init__: glyph + one space, left-aligned in a field of n; tab: glyph + TAB
BulletPrefix(cfg) ==
  IF cfg.tab THEN cfg.glyph \o <<TABC>>
  ELSE LET g == cfg.glyph \o <<SP>> IN g \o Spaces(IF cfg.n > Len(g) THEN cfg.n - Len(g) ELSE 0)

\* the whitespace used for plain indentation (expanded to the bullet width in bullet mode)
White(cfg) ==
  IF cfg.tab THEN <<TABC>>
  ELSE IF cfg.mode = "none" THEN Spaces(cfg.n) ELSE Spaces(Len(BulletPrefix(cfg)))

OnlyIndent(cfg, line) == IF IsBlankStr(line) THEN <<>> ELSE White(cfg) \o line
Bulletize(cfg, line)  == Strip(BulletPrefix(cfg) \o line)

ToList(cfg, ls) ==
  IF ls = <<>> THEN <<>>
  ELSE CASE cfg.mode = "all"   -> [i \in 1..Len(ls) |-> Bulletize(cfg, ls[i])]
         [] cfg.mode = "first" -> [i \in 1..Len(ls) |-> IF i = 1 THEN Bulletize(cfg, ls[1])
                                                         ELSE OnlyIndent(cfg, ls[i])]
         [] OTHER              -> [i \in 1..Len(ls) |-> OnlyIndent(cfg, ls[i])]

\* Indentizer.to_str: EOL.join(to_list(contents)) + EOL
ToStr(cfg, ls) == JoinSep(ToList(cfg, ls)) \o <<LF>>

(***************************************************************************)
(* The property (C18) stated on the model.  A glyph is well formed when it *)
(* is non-empty and neither starts nor ends with a blank character.        *)
(***************************************************************************)
WellFormedGlyph(g) == g # <<>> /\ g[1] \notin Blank /\ g[Len(g)] \notin Blank

IsPrefix(p, s) == Len(p) <= Len(s) /\ SubSeq(s, 1, Len(p)) = p

IndentLaw(cfg, ls) ==
  LET out == ToList(cfg, ls) IN
  /\ Len(out) = Len(ls)                                       \* number and order of lines kept
  /\ \A i \in 1..Len(ls) :
       LET plain  == IF IsBlankStr(ls[i]) THEN out[i] = <<>>             \* blank stays empty
                     ELSE out[i] = White(cfg) \o ls[i]                   \* exactly the whitespace
           bullet == IF IsBlankStr(ls[i]) THEN out[i] = cfg.glyph       \* bare glyph, nothing trailing
                     ELSE out[i] = BulletPrefix(cfg) \o RStrip(ls[i])    \* glyph, padding, text
       IN  CASE cfg.mode = "none"  -> plain
             [] cfg.mode = "all"   -> WellFormedGlyph(cfg.glyph) => bullet
             [] cfg.mode = "first" -> IF i = 1 THEN WellFormedGlyph(cfg.glyph) => bullet ELSE plain
  \* no trailing whitespace is introduced: a line ends blank only if the input line did
  /\ \A i \in 1..Len(out) : (out[i] # <<>> /\ out[i][Len(out[i])] \in Blank)
                                => (ls[i] # <<>> /\ ls[i][Len(ls[i])] \in Blank)
  \* continuation lines of "first" mode are aligned to the text after the glyph
  /\ cfg.mode = "first" => Len(White(cfg)) = (IF cfg.tab THEN 1 ELSE Len(BulletPrefix(cfg)))
  /\ ToStr(cfg, ls) = JoinSep(out) \o <<LF>>
=============================================================================
