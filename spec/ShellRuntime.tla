---------------------------- MODULE ShellRuntime ----------------------------
(***************************************************************************)
(* Behaviour of the compiled generated shell, driven command by command    *)
(* (properties C01, C02, C04 sequential part, C09, C10).                   *)
(*                                                                         *)
(* cx.route is the routing table of the shell: one record per (port, event)   *)
(* of every exposed port                                                   *)
(*   [port, event, kind, mech, sem, mc, role, dirs, reply]                 *)
(*   kind: provides-in | provides-out | requires-in | requires-out         *)
(*   mech: direct (STS: the accessor is the component's own port)          *)
(*         shell  (MTS provides in-event: blocking hand-off to dispatcher) *)
(*         post   (MTS requires out-event: queued, returns at once)        *)
(*         ref    (opposite directions of MTS ports: bound by reference)   *)
(*         select (multi-client out-event: to the selected client only)    *)
(* A command is a record [c |-> ...]; Apply(cx, st, cmd) = [st, obs]: the new  *)
(* state and what the driver must observe (result, queue length, blocked   *)
(* callers, deliveries with execution context and argument values,         *)
(* completed calls with reply and out-argument values).                    *)
(***************************************************************************)
EXTENDS Naturals, Sequences, FiniteSets

\* Every operator takes the context cx = [route, origin, grant, knownH]:
\*   route  : sequence of route records
\*   origin : "create" | "import"
\*   grant  : the reply value (enum index) that grants a claim
\*   knownH : TRUE = Deselect(id) ignores id (shipped behaviour, known finding H)
\*   knownR : TRUE = a failed FinalConstruct() of a shell with a multi-client port may already have sealed the selector, so
\*            that no later attempt can succeed (shipped behaviour, known finding R); FALSE = a failed attempt changes nothing

RIdx(cx, port, event) == {i \in DOMAIN cx.route : cx.route[i].port = port /\ cx.route[i].event = event}
HasRoute(cx, port, event) == RIdx(cx, port, event) # {}
R(cx, port, event) == cx.route[CHOOSE i \in RIdx(cx, port, event) : TRUE]
McPorts(cx) == {cx.route[i].port : i \in {j \in DOMAIN cx.route : cx.route[j].mc}}
HasMc(cx) == McPorts(cx) # {}

Init0 == [phase |-> "none", queue |-> <<>>, blocked |-> {}, bound |-> {}, compUnbound |-> {}, registered |-> {},
          sel |-> "", holder |-> "", script |-> {}, react |-> {}, outc |-> 0, finals |-> 0]

ScriptOf(st, port, event) ==
  LET m == {x \in st.script : x.port = port /\ x.event = event} IN
  IF m = {} THEN 0 ELSE (CHOOSE x \in m : TRUE).v

NumOuts(r) == Cardinality({k \in DOMAIN r.dirs : r.dirs[k] # "in"})
Outs(st, r) == [k \in 1..NumOuts(r) |-> 900 + st.outc + k]
ReplyRaw(st, r) == IF r.reply = "void" THEN 0 ELSE ScriptOf(st, r.port, r.event)
ReplySeen(st, r) == IF r.reply = "bool" THEN (IF ReplyRaw(st, r) # 0 THEN 1 ELSE 0) ELSE ReplyRaw(st, r)

Entry(side, r, ctx, client, args, outs, reply) ==
  [side |-> side, port |-> r.port, event |-> r.event, ctx |-> ctx, client |-> client, args |-> args, outs |-> outs, reply |-> reply]
Done(who, reply, outs) == [who |-> who, ok |-> TRUE, reply |-> reply, outs |-> outs, type |-> ""]
Failed(who, type) == [who |-> who, ok |-> FALSE, reply |-> 0, outs |-> <<>>, type |-> type]

Obs(st, res, log, done) == [res |-> res, queue |-> Len(st.queue), blocked |-> st.blocked, log |-> log, done |-> done]
Ok == [ok |-> TRUE]
Bad(type) == [ok |-> FALSE, type |-> type]

(***************************************************************************)
(* Construction (C09)                                                       *)
(***************************************************************************)
Construct(cx, st, bits) ==                      \* bits = <<pump, runtime, other>> present in the user's locator
  LET fails == IF cx.origin = "create" THEN bits[1] \/ bits[2] ELSE ~bits[1] \/ ~bits[2] IN
  IF fails THEN [st |-> Init0, obs |-> Obs(Init0, [ok |-> FALSE, type |-> "runtime_error", user_locator_unchanged |-> TRUE], <<>>, {})]
  ELSE LET s2 == [Init0 EXCEPT !.phase = "constructed"]
           facts == IF cx.origin = "create"
                    THEN [ok |-> TRUE, comp_locator_is_user |-> FALSE, comp_pump_is_user |-> FALSE, comp_runtime_is_user |-> FALSE,
                          comp_has_pump |-> TRUE, comp_has_runtime |-> TRUE, comp_has_other |-> bits[3],
                          comp_services |-> 2 + (IF bits[3] THEN 1 ELSE 0), user_locator_unchanged |-> TRUE,
                          has_locator_accessor |-> TRUE, locator_accessor_is_comp_locator |-> TRUE]
                    ELSE [ok |-> TRUE, comp_locator_is_user |-> TRUE, comp_pump_is_user |-> TRUE, comp_runtime_is_user |-> TRUE,
                          comp_has_pump |-> TRUE, comp_has_runtime |-> TRUE, comp_has_other |-> bits[3],
                          comp_services |-> 2 + (IF bits[3] THEN 1 ELSE 0), user_locator_unchanged |-> TRUE,
                          has_locator_accessor |-> FALSE, locator_accessor_is_comp_locator |-> FALSE]
       IN [st |-> s2, obs |-> Obs(s2, facts, <<>>, {})]

(***************************************************************************)
(* Binding, registration, final construction (C10)                          *)
(***************************************************************************)
UserSide(r) == r.kind \in {"provides-out", "requires-in"}
Matches(x, pat) == pat = "*" \/ x = pat
\* naming a client of a multi-client port allocates its port: allowed only before final construction
RegisterOk(st, id) == id \in st.registered \/ st.phase # "final"

Bind(cx, st, port, event, client, on) ==
  LET hit == {i \in DOMAIN cx.route : UserSide(cx.route[i]) /\ Matches(cx.route[i].port, port) /\ Matches(cx.route[i].event, event)
                                   /\ (cx.route[i].mc <=> client # "")}
      keys == {<<cx.route[i].port, cx.route[i].event, client>> : i \in hit}
  IN  IF client # "" /\ hit # {} /\ ~RegisterOk(st, client)
      THEN [st |-> st, obs |-> Obs(st, Bad("runtime_error"), <<>>, {})]
      ELSE LET s2 == [st EXCEPT !.bound = IF on THEN @ \cup keys ELSE @ \ keys,
                                !.registered = IF client # "" /\ hit # {} THEN @ \cup {client} ELSE @]
           IN [st |-> s2, obs |-> Obs(s2, [ok |-> TRUE, n |-> Cardinality(hit)], <<>>, {})]

Register(cx, st, id) ==
  IF ~HasMc(cx) THEN [st |-> st, obs |-> Obs(st, [ok |-> TRUE, n |-> 0], <<>>, {})]
  ELSE IF id = "" \/ ~RegisterOk(st, id) THEN [st |-> st, obs |-> Obs(st, Bad("runtime_error"), <<>>, {})]
  ELSE LET s2 == [st EXCEPT !.registered = @ \cup {id}] IN [st |-> s2, obs |-> Obs(s2, [ok |-> TRUE, n |-> 1], <<>>, {})]

UnbindComp(cx, st, port, event) ==
  LET s2 == [st EXCEPT !.compUnbound = @ \cup {<<port, event>>}] IN [st |-> s2, obs |-> Obs(s2, [ok |-> TRUE, n |-> 1], <<>>, {})]

\* every event the user must have bound on the boundary (per registered client for a multi-client port)
Required(cx, st) ==
  {<<cx.route[i].port, cx.route[i].event, "">> : i \in {j \in DOMAIN cx.route : UserSide(cx.route[j]) /\ ~cx.route[j].mc}}
  \cup {<<cx.route[i].port, cx.route[i].event, c>> : i \in {j \in DOMAIN cx.route : UserSide(cx.route[j]) /\ cx.route[j].mc}, c \in st.registered}
AllBound(cx, st) == Required(cx, st) \subseteq st.bound /\ st.compUnbound = {}

Final(cx, st) ==
  IF HasMc(cx) /\ st.finals > 0 THEN [st |-> st, obs |-> Obs(st, Bad("runtime_error"), <<>>, {})]       \* already final constructed
  ELSE IF ~AllBound(cx, st)
       THEN LET s2 == IF cx.knownR /\ HasMc(cx) /\ (\A k \in Required(cx, st) : k[3] = "" \/ k \in st.bound)
                      THEN [st EXCEPT !.finals = @ + 1, !.phase = "final"]        \* the selector was sealed before the failure
                      ELSE st
            IN [st |-> s2, obs |-> Obs(s2, Bad("binding_error"), <<>>, {})]
       ELSE LET s2 == [st EXCEPT !.phase = "final", !.finals = @ + 1]
            IN [st |-> s2, obs |-> Obs(s2, [ok |-> TRUE, parent_recorded |-> TRUE], <<>>, {})]

(***************************************************************************)
(* Events (C01, C02, C04)                                                   *)
(***************************************************************************)
\* the effect a completed multi-client in-event has on the selection (on the client's thread, after the hand-off)
AfterMc(cx, st, r, client) ==
  IF r.role = "claim" /\ ScriptOf(st, r.port, r.event) = cx.grant THEN [st EXCEPT !.sel = client, !.holder = client]
  ELSE IF r.role = "release" THEN [st EXCEPT !.sel = IF cx.knownH \/ st.sel = client THEN "" ELSE st.sel,
                                            !.holder = IF st.holder = client THEN "" ELSE st.holder]
  ELSE st

\* the wrapped component may raise an out-event of the same port while it handles an in-event (react command):
\* delivered like any out-event of that port, in the context the handler runs in, BEFORE the caller continues
ReactionOf(st, port, event) == {x \in st.react : x.port = port /\ x.event = event}
ReactArgs(r) == [k \in 1..Len(r.dirs) |-> 770 + k]
Reaction(cx, st, port, event, ctx) ==
  IF ReactionOf(st, port, event) = {} THEN <<>>
  ELSE LET ro == R(cx, port, (CHOOSE x \in ReactionOf(st, port, event) : TRUE).out) IN
       IF ro.mech = "select"
       THEN (IF st.sel # "" /\ <<port, ro.event, st.sel>> \in st.bound
             THEN <<Entry("user", ro, ctx, st.sel, ReactArgs(ro), <<>>, 0)>> ELSE <<>>)
       ELSE <<Entry("user", ro, ctx, "", ReactArgs(ro), <<>>, 0)>>

React(cx, st, port, event, out) ==
  LET s2 == [st EXCEPT !.react = {x \in @ : ~(x.port = port /\ x.event = event)} \cup {[port |-> port, event |-> event, out |-> out]}]
  IN [st |-> s2, obs |-> Obs(s2, Ok, <<>>, {})]

Call(cx, st, who, port, client, event, args) ==        \* a client calls an in-event of a provides port
  LET r == R(cx, port, event) IN
  IF r.mc /\ ~RegisterOk(st, client)
  THEN [st |-> st, obs |-> Obs(st, Ok, <<>>, {Failed(who, "runtime_error")})]
  ELSE LET s1 == IF r.mc THEN [st EXCEPT !.registered = @ \cup {client}] ELSE st IN
  IF r.mech = "direct"
  THEN LET s2 == [s1 EXCEPT !.outc = @ + NumOuts(r)] IN
       [st |-> s2, obs |-> Obs(s2, Ok, <<Entry("comp", r, who, "", args, Outs(s1, r), ReplyRaw(s1, r))>> \o Reaction(cx, s1, port, event, who),
                               {Done(who, ReplySeen(s1, r), Outs(s1, r))})]
  ELSE LET s2 == [s1 EXCEPT !.queue = Append(@, [kind |-> "shell", port |-> port, event |-> event, args |-> args,
                                                  who |-> who, client |-> client]),
                           !.blocked = @ \cup {who}]
       IN [st |-> s2, obs |-> Obs(s2, Ok, <<>>, {})]

Raise(cx, st, who, port, event, args) ==               \* a peer raises an out-event on a requires port
  LET r == R(cx, port, event) IN
  IF r.mech = "direct"
  THEN [st |-> st, obs |-> Obs(st, Ok, <<Entry("comp", r, who, "", args, <<>>, 0)>>, {Done(who, 0, <<>>)})]
  ELSE LET s2 == [st EXCEPT !.queue = Append(@, [kind |-> "post", port |-> port, event |-> event, args |-> args,
                                                  who |-> who, client |-> ""])]
       IN [st |-> s2, obs |-> Obs(s2, Ok, <<>>, {Done(who, 0, <<>>)})]

Pump(cx, st) ==                                        \* the dispatcher runs exactly one queued closure
  IF st.queue = <<>> THEN [st |-> st, obs |-> Obs(st, [ok |-> FALSE], <<>>, {})]
  ELSE LET k == Head(st.queue)
           r == R(cx, k.port, k.event)
           s1 == [st EXCEPT !.queue = Tail(@), !.outc = @ + NumOuts(r)]
           e == Entry("comp", r, "disp", "", k.args, Outs(st, r), ReplyRaw(st, r))
       IN IF k.kind = "post" THEN [st |-> s1, obs |-> Obs(s1, Ok, <<e>>, {})]
          ELSE LET s2 == [s1 EXCEPT !.blocked = @ \ {k.who}]
                   s3 == IF r.mc THEN AfterMc(cx, s2, r, k.client) ELSE s2
               IN [st |-> s3, obs |-> Obs(s3, Ok, <<e>> \o Reaction(cx, st, k.port, k.event, "disp"),
                                         {Done(k.who, ReplySeen(st, r), Outs(st, r))})]

Comp(cx, st, who, port, event, args) ==                \* the wrapped component raises an out-event / calls an in-event
  LET r == R(cx, port, event) IN
  IF r.mech = "select"
  THEN IF st.sel = "" THEN [st |-> st, obs |-> Obs(st, [ok |-> TRUE, reply |-> 0, outs |-> <<>>], <<>>, {})]
       ELSE IF <<port, event, st.sel>> \notin st.bound
            THEN [st |-> st, obs |-> Obs(st, Bad("exception"), <<>>, {})]
            ELSE [st |-> st, obs |-> Obs(st, [ok |-> TRUE, reply |-> 0, outs |-> <<>>],
                                         <<Entry("user", r, who, st.sel, args, <<>>, 0)>>, {})]
  ELSE IF <<port, event, "">> \notin st.bound THEN [st |-> st, obs |-> Obs(st, Bad("exception"), <<>>, {})]
  ELSE LET s2 == [st EXCEPT !.outc = @ + NumOuts(r)] IN
       [st |-> s2, obs |-> Obs(s2, [ok |-> TRUE, reply |-> ReplySeen(st, r), outs |-> Outs(st, r)],
                               <<Entry("user", r, who, "", args, Outs(st, r), ReplyRaw(st, r))>>, {})]

Script(cx, st, port, event, v) ==
  LET s2 == [st EXCEPT !.script = {x \in @ : ~(x.port = port /\ x.event = event)} \cup {[port |-> port, event |-> event, v |-> v]}]
  IN [st |-> s2, obs |-> Obs(s2, Ok, <<>>, {})]

Apply(cx, st, cmd) ==
  CASE cmd.c = "construct"   -> Construct(cx, st, cmd.bits)
    [] cmd.c = "bind"        -> Bind(cx, st, cmd.port, cmd.event, cmd.client, TRUE)
    [] cmd.c = "unbind"      -> Bind(cx, st, cmd.port, cmd.event, cmd.client, FALSE)
    \* <prefix>::ConnectPorts(boundary port, the user's own port object): binds every user-side event of that port at once
    [] cmd.c = "connect"     -> Bind(cx, st, cmd.port, "*", cmd.client, TRUE)
    [] cmd.c = "unbind-comp" -> UnbindComp(cx, st, cmd.port, cmd.event)
    \* the shell is destroyed: with either origin the USER's dispatcher keeps running (only a created one goes with the shell)
    [] cmd.c = "destroy"     -> [st |-> st, obs |-> Obs(st, [ok |-> TRUE, user_pump_stopped |-> FALSE], <<>>, {})]
    [] cmd.c = "register"    -> Register(cx, st, cmd.id)
    [] cmd.c = "final"       -> Final(cx, st)
    [] cmd.c = "script"      -> Script(cx, st, cmd.port, cmd.event, cmd.v)
    [] cmd.c = "react"       -> React(cx, st, cmd.port, cmd.event, cmd.out)
    [] cmd.c = "call"        -> Call(cx, st, cmd.who, cmd.port, cmd.client, cmd.event, cmd.args)
    [] cmd.c = "raise"       -> Raise(cx, st, cmd.who, cmd.port, cmd.event, cmd.args)
    [] cmd.c = "pump"        -> Pump(cx, st)
    [] cmd.c = "comp"        -> Comp(cx, st, cmd.who, cmd.port, cmd.event, cmd.args)

\* C04 as stated: an out-event of the multi-client port goes to the client whose most recent claim was granted and
\* who has not released since (ghost `holder`), and to nobody when there is no such client
SelectionFaithful(st) == st.sel = st.holder

(***************************************************************************)
(* Properties of the model                                                  *)
(***************************************************************************)
\* C01: every (port, event) of an exposed port is routed exactly once
RoutedOnce(cx) == \A i, j \in DOMAIN cx.route : (cx.route[i].port = cx.route[j].port /\ cx.route[i].event = cx.route[j].event) => i = j
\* C02: the mechanism is the one the configured semantics prescribes
MechLaw(cx) == \A i \in DOMAIN cx.route :
  LET r == cx.route[i] IN
  /\ (r.sem = "STS" => r.mech = "direct")
  /\ (r.sem = "MTS" /\ r.kind = "provides-in" => r.mech = "shell")
  /\ (r.sem = "MTS" /\ r.kind = "requires-out" => r.mech = "post")
  /\ (r.sem = "MTS" /\ r.kind = "requires-in" => r.mech = "ref")
  /\ (r.sem = "MTS" /\ r.kind = "provides-out" => r.mech = (IF r.mc THEN "select" ELSE "ref"))
  /\ (r.mc => r.sem = "MTS")
=============================================================================
