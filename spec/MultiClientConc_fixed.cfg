SPECIFICATION SpecD
CONSTANTS
  Clients = {"A", "B", "C"}
  Cycles = 2
  MaxOuts = 2
  DeselectChecksIdentity = TRUE
  SelectInDispatcher = TRUE
  StrayRelease = TRUE
PROPERTY MutualExclusion
INVARIANT DeliveryUnderLock
INVARIANT HolderReceives
VIEW View
