SPECIFICATION Spec
CONSTANT Mode = "dtor"
INVARIANT Laws
CONSTRAINT Emit
CHECK_DEADLOCK FALSE
