SPECIFICATION Spec
CONSTANTS
  Alphabet = {97, 32}
  MaxLen = 2
  MaxLines = 2
  Widths = {0, 2, 4}
  Glyphs <- GlyphsTwo
  Twice = TRUE
INVARIANT Law
INVARIANT LawTwice
CONSTRAINT Emit
CHECK_DEADLOCK FALSE
