SPECIFICATION Spec
CONSTANTS
  Inst = {1, 2}
  DocIds = {"D1", "D2", "Bad"}
  DocOf <- MCDocOf
  MaxOps = 5
PROPERTY ProcessPure
PROPERTY Isolated
CONSTRAINT Emit
CHECK_DEADLOCK FALSE
