SPECIFICATION Spec
CONSTANT Mode = "block"
INVARIANT Laws
CONSTRAINT Emit
CHECK_DEADLOCK FALSE
