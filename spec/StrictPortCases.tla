--------------------------- MODULE StrictPortCases ---------------------------
(* every way to call ConnectPorts on every pair of strict ports of two copies of the support file *)
EXTENDS StrictPort, TLC, Json
Copies == {"N1", "N2"}
Ports == [ns : Copies, sem : {"STS", "MTS"}, itf : {"I", "J"}]
VARIABLES via, a, b
vars == <<via, a, b>>
Init == via \in Copies /\ a \in Ports /\ b \in Ports
Next == FALSE
Spec == Init /\ [][Next]_vars
Law == TypingLaw(via, a, b)
Handlers == {"none", "h1", "h2"}
ConnLaw == \A p \in [in : Handlers, out : Handlers], r \in [in : Handlers, out : Handlers] : ConnectLaw(p, r)
Emit == PrintT(ToJson([via |-> via, a |-> a, b |-> b, verdict |-> Verdict(via, a, b), shipped |-> Compiles(via, a, b)]))
=============================================================================
