SPECIFICATION Spec
CONSTANTS
  PNames = {"a"}
  RNames = {"x", "y"}
  Side = "both"
INVARIANT Law
CONSTRAINT Emit
CHECK_DEADLOCK FALSE
