---------------------------- MODULE ParserFaults ----------------------------
(***************************************************************************)
(* Fault catalogue for the Dezyne JSON AST (property C15).  Grammar is the *)
(* table of element classes with their keys; a fault class says what is    *)
(* done to a node of a well-formed document; Expected gives the verdict:   *)
(*   "reject"  - parsing must fail with a documented error                 *)
(*   "accept"  - parsing must succeed (e.g. unknown classes are skipped)   *)
(*   "either"  - the statement leaves it open                              *)
(* In every case the only admissible failures are DznJsonError and         *)
(* NamespaceIdsTypeError (Allowed).                                        *)
(* Mode "enum": every fault class is one initial state, printed for the    *)
(* harness to instantiate at every matching node of its base documents.    *)
(* Mode "trace": recorded outcomes are validated against Allowed.          *)
(***************************************************************************)
EXTENDS Naturals, Sequences, FiniteSets, TLC, TLCExt, Json, IOUtils

G(cls, key, typ, req) == [cls |-> cls, key |-> key, typ |-> typ, req |-> req]
Grammar == {
  G("root", "elements", "list", TRUE), G("root", "working-directory", "str", TRUE), G("root", "comment", "dict", FALSE),
  G("comment", "string", "str", TRUE),
  G("namespace", "name", "dict", TRUE), G("namespace", "elements", "list", TRUE),
  G("scope_name", "ids", "list", TRUE),
  G("component", "name", "dict", TRUE), G("component", "ports", "dict", TRUE),
  G("foreign", "name", "dict", TRUE), G("foreign", "ports", "dict", TRUE),
  G("system", "name", "dict", TRUE), G("system", "ports", "dict", TRUE),
  G("system", "instances", "dict", TRUE), G("system", "bindings", "dict", TRUE),
  G("interface", "name", "dict", TRUE), G("interface", "types", "dict", TRUE), G("interface", "events", "dict", TRUE),
  G("enum", "name", "dict", TRUE), G("enum", "fields", "dict", TRUE), G("fields", "elements", "list", TRUE),
  G("subint", "name", "dict", TRUE), G("subint", "range", "dict", TRUE),
  G("range", "from", "int", TRUE), G("range", "to", "int", TRUE),
  G("extern", "name", "dict", TRUE), G("extern", "value", "dict", TRUE), G("data", "value", "str", TRUE),
  G("ports", "elements", "list", TRUE),
  G("port", "name", "str", TRUE), G("port", "type_name", "dict", TRUE), G("port", "direction", "str", TRUE),
  G("port", "formals", "dict", TRUE), G("port", "injected?", "str", FALSE),
  G("formals", "elements", "list", TRUE),
  G("formal", "name", "str", TRUE), G("formal", "type_name", "dict", TRUE), G("formal", "direction", "str", TRUE),
  G("events", "elements", "list", TRUE),
  G("event", "name", "str", TRUE), G("event", "signature", "dict", TRUE), G("event", "direction", "str", TRUE),
  G("signature", "type_name", "dict", TRUE), G("signature", "formals", "dict", TRUE),
  G("types", "elements", "list", TRUE),
  G("instances", "elements", "list", TRUE), G("instance", "name", "str", TRUE), G("instance", "type_name", "dict", TRUE),
  G("bindings", "elements", "list", TRUE), G("binding", "left", "dict", TRUE), G("binding", "right", "dict", TRUE),
  G("end-point", "port_name", "str", TRUE), G("end-point", "instance_name", "str", FALSE),
  G("import", "name", "str", TRUE), G("file-name", "name", "str", TRUE) }

Classes == {g.cls : g \in Grammar}
\* classes that occur as direct children of root/namespace 'elements' (dispatched on, not asserted)
ElementClasses == {"component", "foreign", "system", "interface", "enum", "subint", "extern", "import",
                   "file-name", "namespace"}
JsonTypes == {"null", "bool", "int", "float", "str", "list", "dict"}
\* list elements of these classes are parsed with an asserting parse function
ListItemOf == [c \in {"ports", "formals", "events", "instances", "bindings"} |->
                 CASE c = "ports" -> "port" [] c = "formals" -> "formal" [] c = "events" -> "event"
                   [] c = "instances" -> "instance" [] c = "bindings" -> "binding"]

StrShapes == {"empty", "digits", "neg-digits", "double-minus", "superscript", "circled", "minus-only", "space-digits",
              "float-text", "bool-text", "null-text", "plus-digits", "underscore-digits"}
F(kind, cls, key, arg) == [kind |-> kind, cls |-> cls, key |-> key, arg |-> arg]
FaultClasses ==
  {F("delete-key", g.cls, g.key, "") : g \in Grammar}
  \cup {F("retype", g.cls, g.key, ty) : g \in Grammar, ty \in JsonTypes}
  \* a value of every key replaced by a string that LOOKS like a value of another type (digits, signs, unicode digits,
  \* words of other JSON types): lenient conversions must not turn them into internal errors
  \cup {F("retype-str", g.cls, g.key, a) : g \in Grammar, a \in StrShapes}
  \cup {F("delete-class", c, "<class>", "") : c \in Classes}
  \cup {F("retag", c, "<class>", "bogus") : c \in Classes}
  \cup {F("retag", cd[1], "<class>", cd[2]) : cd \in {x \in ElementClasses \X ElementClasses : x[1] # x[2]}}
  \cup {F("retype-class", c, "<class>", ty) : c \in Classes, ty \in JsonTypes \ {"str"}}
  \cup {F("bad-identifier", "scope_name", "ids", a) : a \in {"digit-first", "empty-string", "with-space", "non-string", "trailing-newline",
                                                                "nested-list", "nested-dict", "null", "bool", "non-ascii"}}
  \cup {F("empty-ids", "scope_name", "ids", "")}
  \cup {F("bad-word", "port", "direction", "sideways"), F("bad-word", "formal", "direction", "sideways"),
        F("bad-word", "event", "direction", "sideways"), F("bad-word", "port", "injected?", "bogus")}
  \cup {F("out-event-valued", "event", "signature", a) : a \in {"bool", "id", "v", "oid", "Void", "void_", "ns.void", "void.void"}}
  \* the same with the direction word in another letter case: refused as a bad word or by the out-event rule
  \cup {F("out-event-valued-case", "event", "direction", a) : a \in {"Out", "OUT", "oUT"}}
  \cup {F("out-event-out-param-case", "event", "direction", a) : a \in {"Out", "OUT"}}
  \cup {F("bad-word", "event", "direction", a) : a \in {"Out", "In", "IN"}}
  \cup {F("bad-word", "port", "direction", a) : a \in {"Provides", "REQUIRES"}}
  \cup {F("bad-word", "formal", "direction", a) : a \in {"Out", "InOut", "INOUT"}}
  \cup {F("out-event-out-param", "event", "signature", ""),
        F("out-event-inout-param", "event", "signature", "")}
  \cup {F("element-non-dict", c, "elements", ty) : c \in {"root", "namespace"}, ty \in JsonTypes \ {"dict"}}
  \cup {F("item-non-dict", c, "elements", ty) : c \in DOMAIN ListItemOf \cup {"types"}, ty \in JsonTypes \ {"dict"}}
  \cup {F("none", "root", "", "")}

Decl(f) == CHOOSE g \in Grammar : g.cls = f.cls /\ g.key = f.key

\* where the node of class c sits decides what a class fault does: pos is supplied by the harness
\*   "element" (child of root/namespace elements), "type" (child of types elements), "asserted" (anywhere else)
Expected(f, pos) ==
  CASE f.kind = "none" -> "accept"
    [] f.kind = "delete-key" -> IF Decl(f).req THEN "reject" ELSE "accept"
    [] f.kind = "retype" ->
         IF f.arg = Decl(f).typ THEN "either"                                  \* same JSON type, other value
         ELSE IF Decl(f).typ = "int" /\ f.arg = "bool" THEN "either"           \* Python: bool is an int
         ELSE "reject"
    [] f.kind = "retype-str" -> "either"
    [] f.kind \in {"delete-class", "retype-class"} -> IF f.kind = "retype-class" /\ pos # "asserted" THEN "either" ELSE "reject"
    [] f.kind = "retag" -> IF f.arg = "bogus" THEN (IF pos = "asserted" THEN "reject" ELSE "accept")
                           ELSE "either"
    [] f.kind = "bad-identifier" -> "reject"
    [] f.kind = "empty-ids" -> "reject"
    [] f.kind = "bad-word" -> "reject"
    [] f.kind \in {"out-event-valued", "out-event-out-param", "out-event-valued-case", "out-event-out-param-case"} -> "reject"
    [] f.kind = "out-event-inout-param" -> "either"
    [] f.kind = "element-non-dict" -> "accept"                                 \* skipped with a warning
    [] f.kind = "item-non-dict" -> "reject"
    [] OTHER -> "either"

Documented == {"DznJsonError", "NamespaceIdsTypeError"}
\* What the property demands: never an internal exception, and the two out-event rules are always enforced.
\* The other verdicts of Expected describe what the shipped parser does; a disagreement there is reported by the
\* harness as a model/code disagreement (not a violation: the statement allows "file contents or documented error").
OutEventRules == {"out-event-valued", "out-event-out-param", "out-event-valued-case", "out-event-out-param-case"}
Allowed(f, pos, outcome) ==
  /\ outcome \in Documented \cup {"ok"}                                        \* never an internal exception
  /\ (f.kind \in OutEventRules => outcome \in Documented)                      \* always refused

CONSTANT Mode
VARIABLES fc, t, l
vars == <<fc, t, l>>

Traces == IF Mode = "trace" THEN ndJsonDeserialize(IOEnv.TRACE_FILE) ELSE <<>>
Init == IF Mode = "enum" THEN fc \in FaultClasses /\ t = 0 /\ l = 0
        ELSE fc = F("none", "root", "", "") /\ t \in DOMAIN Traces /\ l = 1
Ev == Traces[t].events
Fault(e) == F(e.kind, e.cls, e.key, e.arg)
IsArbitrary(e) == e.kind = "arbitrary"
TNext == /\ Mode = "trace" /\ l <= Len(Ev) /\ l' = l + 1 /\ UNCHANGED <<fc, t>>
         /\ IF IsArbitrary(Ev[l]) THEN Ev[l].outcome \in Documented \cup {"ok"}
            ELSE Allowed(Fault(Ev[l]), Ev[l].pos, Ev[l].outcome)
Spec == Init /\ [][TNext]_vars

\* sanity of the catalogue itself
CatalogueOk == Mode = "enum" => (fc.key # "<class>" /\ fc.kind \in {"delete-key", "retype"} => \E g \in Grammar : g.cls = fc.cls /\ g.key = fc.key)
Emit == Mode # "enum" \/ PrintT(ToJson([fault |-> fc, asserted |-> Expected(fc, "asserted"),
                                        element |-> Expected(fc, "element"), type |-> Expected(fc, "type")]))

ASSUME Mode = "trace" => \A i \in DOMAIN Traces : TLCSet(i, 0)
Progress == Mode # "trace" \/ TLCSet(t, IF TLCGet(t) < l - 1 THEN l - 1 ELSE TLCGet(t))
Rejected == {i \in DOMAIN Traces : TLCGet(i) < Len(Traces[i].events)}
Accepted == Mode # "trace" \/ \A i \in Rejected : PrintT(<<"REJECTED", Traces[i].id, TLCGet(i) + 1>>)
=============================================================================
