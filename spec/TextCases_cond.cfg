SPECIFICATION Spec
CONSTANTS
  Alphabet = {97}
  MaxLen = 0
  Mode = "cond"
INVARIANT CondChunkLaw
CONSTRAINT Emit
CHECK_DEADLOCK FALSE
