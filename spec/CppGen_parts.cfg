SPECIFICATION Spec
CONSTANT Mode = "parts"
INVARIANT Laws
CONSTRAINT Emit
CHECK_DEADLOCK FALSE
