SPECIFICATION Spec
CONSTANTS
  PNames = {"a", "b", "c"}
  RNames = {"x", "y", "z"}
  Side = "provides"
INVARIANT Law
CONSTRAINT Emit
CHECK_DEADLOCK FALSE
