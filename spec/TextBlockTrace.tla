-------------------------- MODULE TextBlockTrace --------------------------
(***************************************************************************)
(* Trace validation for the text layer (C17, C18, C19): executions of the  *)
(* real TextBlock / Comment / Indentizer / chunk / cond_chunk recorded by  *)
(* the harness (one NDJSON line per trace) must be behaviours of the model *)
(* of Text.tla / Indent.tla.  Every event carries its arguments and the    *)
(* observed result, so validation is linear in the trace length.           *)
(* Batch idiom: one TLC run validates all traces of the file; register i   *)
(* holds the number of events of trace i that the model explained.         *)
(***************************************************************************)
EXTENDS Indent, TLC, TLCExt, Json, IOUtils

Traces  == ndJsonDeserialize(IOEnv.TRACE_FILE)
Explain == "EXPLAIN" \in DOMAIN IOEnv /\ IOEnv.EXPLAIN = "1"

VARIABLES t, l, hdr, lines, ind
vars == <<t, l, hdr, lines, ind>>

Ev == Traces[t].events
CommentCfg == [tab |-> FALSE, n |-> 3, mode |-> "all", glyph |-> <<47, 47>>]
DefaultCfg == [tab |-> FALSE, n |-> 4, mode |-> "none", glyph |-> <<>>]

TInit == t \in DOMAIN Traces /\ l = 1 /\ hdr = <<>> /\ lines = <<>> /\ ind = DefaultCfg

\* state change prescribed by the model for event e
Effect(e) ==
  CASE e.op \in {"new", "comment"} ->
         /\ hdr' = (IF e.op = "new" /\ Truthy(e.h) THEN AppendLines(e.h) ELSE <<>>)
         /\ lines' = AppendLines(e.c)
         /\ ind' = (IF e.op = "comment" THEN CommentCfg ELSE DefaultCfg)
    [] e.op \in {"append", "iadd"} -> lines' = lines \o AppendLines(e.c) /\ UNCHANGED <<hdr, ind>>
    [] e.op = "add"     -> lines' = lines \o AppendLines(e.c) /\ hdr' = <<>> /\ ind' = DefaultCfg
    [] e.op = "trim"    -> lines' = TrimLines(lines, e.endOnly) /\ UNCHANGED <<hdr, ind>>
    [] e.op = "indent"  -> lines' = ToList(e.cfg, lines) /\ ind' = e.cfg /\ UNCHANGED hdr
    [] e.op = "indentbare" -> lines' = ToList(ind, lines) /\ UNCHANGED <<hdr, ind>>
    [] e.op = "setind"  -> ind' = e.cfg /\ UNCHANGED <<hdr, lines>>
    [] e.op = "setlines" -> lines' = e.ls /\ UNCHANGED <<hdr, ind>>
    [] OTHER -> UNCHANGED <<hdr, lines, ind>>            \* observations: str, render, functions

\* what the model says the observable result of event e is (in the state after the event)
Expected(e) ==
  CASE e.op = "render"  -> [str |-> StrOfBlock(<<>>, ToList(CommentCfg, lines'))]
    [] e.op = "tolist"  -> [out |-> ToList(e.cfg, Flatten(e.c, FALSE)),
                            str |-> ToStr(e.cfg, Flatten(e.c, FALSE))]
    [] e.op = "flatten" -> [out |-> Flatten(e.c, e.skip)]
    [] e.op = "chunk"   -> ChunkLines(e.c, e.a)
    [] e.op = "condchunk" -> CondChunkLines(e.pre, e.c, e.empty, e.a, e.aon)
    [] e.op = "trimlist" -> [out |-> TrimLines(e.ls, e.endOnly)]
    [] OTHER -> [hdr |-> hdr', lines |-> lines', str |-> StrOfBlock(hdr', lines')]

TNext == /\ l <= Len(Ev)
         /\ l' = l + 1 /\ t' = t
         /\ Effect(Ev[l])
         /\ IF Explain
            THEN (l < Len(Ev) \/ PrintT(<<"EXPECT", ToJson(Expected(Ev[l]))>>))
            ELSE Expected(Ev[l]) = Ev[l].obs

TSpec == TInit /\ [][TNext]_vars

ASSUME \A i \in DOMAIN Traces : TLCSet(i, 0)
Progress == TLCSet(t, IF TLCGet(t) < l - 1 THEN l - 1 ELSE TLCGet(t))
Rejected == {i \in DOMAIN Traces : TLCGet(i) < Len(Traces[i].events)}
Accepted == \A i \in Rejected : PrintT(<<"REJECTED", Traces[i].id, TLCGet(i) + 1>>)
=============================================================================
