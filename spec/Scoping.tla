------------------------------ MODULE Scoping ------------------------------
(***************************************************************************)
(* scoping.py / ast_view.py: namespace identifiers, the scope resolution   *)
(* order, find_fqn and find_any.  A namespace-identifier value is a        *)
(* sequence of identifiers; identifiers are opaque values for the lookup   *)
(* functions and sequences of code points for the notation functions.      *)
(* A declaration is a record with at least [kind, fqn].                    *)
(***************************************************************************)
EXTENDS Naturals, Sequences, FiniteSets

Range(f) == {f[i] : i \in DOMAIN f}

\* the enclosing scopes of `scope`, innermost first, ending with the global scope <<>>
Chain(scope) == [i \in 1..(Len(scope) + 1) |-> SubSeq(scope, 1, Len(scope) + 1 - i)]

\* scoping.scope_resolution_order(searchable, calling_scope)
ResolutionOrder(name, scope) == [i \in 1..(Len(scope) + 1) |-> Chain(scope)[i] \o name]

Searchable == {"component", "enum", "extern", "foreign", "interface", "subint", "system"}

\* ast_view.find_fqn(fct, name, scope): implementation-shaped definition (filter by the order)
FindFqn(D, name, scope) ==
  {d \in D : d.kind \in Searchable /\ d.fqn \in Range(ResolutionOrder(name, scope))}

\* ast_view.find_any(fct, ids)
IsSuffix(s, full) == Len(s) <= Len(full) /\ SubSeq(full, Len(full) - Len(s) + 1, Len(full)) = s
FindAny(D, ids) == {d \in D : d.kind \in Searchable /\ IsSuffix(ids, d.fqn)}

(***************************************************************************)
(* Property C14, lookup part, as stated: exactly the declarations whose    *)
(* fqn is the searched name prefixed by the calling scope or one of its    *)
(* enclosing scopes; candidates listed innermost to outermost.             *)
(***************************************************************************)
LookupLaw(D, name, scope) ==
  /\ \A d \in D : d \in FindFqn(D, name, scope) <=>
        (d.kind \in Searchable /\ \E k \in 0..Len(scope) : d.fqn = SubSeq(scope, 1, k) \o name)
  /\ LET ro == ResolutionOrder(name, scope) IN
       /\ Len(ro) = Len(scope) + 1
       /\ ro[1] = scope \o name /\ ro[Len(ro)] = name
       /\ \A i \in 1..(Len(ro) - 1) : Len(ro[i]) = Len(ro[i + 1]) + 1
       /\ \A i \in 1..Len(ro) : IsSuffix(name, ro[i])
  /\ \A d \in D : d \in FindAny(D, name) <=>
        (d.kind \in Searchable /\ \E p \in {SubSeq(d.fqn, 1, k) : k \in 0..Len(d.fqn)} : d.fqn = p \o name)

(***************************************************************************)
(* Notations.  Here an identifier is a sequence of code points.            *)
(***************************************************************************)
Upper == 65..90
Lower == 97..122
Digit == 48..57
USCORE == 95
DOT == 46
COLON == 58
ValidId(s) == /\ s # <<>>
              /\ s[1] \in Upper \cup Lower \cup {USCORE}
              /\ \A i \in 1..Len(s) : s[i] \in Upper \cup Lower \cup Digit \cup {USCORE}

RECURSIVE SplitOn(_, _, _, _)     \* str.split(sep) for a separator of 1 or 2 characters
SplitOn(s, sep, i, cur) ==
  IF i > Len(s) THEN <<cur>>
  ELSE IF i + Len(sep) - 1 <= Len(s) /\ SubSeq(s, i, i + Len(sep) - 1) = sep
       THEN <<cur>> \o SplitOn(s, sep, i + Len(sep), <<>>)
       ELSE SplitOn(s, sep, i + 1, Append(cur, s[i]))
Split(s, sep) == SplitOn(s, sep, 1, <<>>)

Contains(s, sep) == \E i \in 1..Len(s) : i + Len(sep) - 1 <= Len(s) /\ SubSeq(s, i, i + Len(sep) - 1) = sep

\* scoping.namespaceids_t(<str>): the candidate items before validation
ItemsOfString(s) == IF s = <<>> THEN <<>>
                    ELSE IF Contains(s, <<DOT>>) THEN Split(s, <<DOT>>)
                    ELSE IF Contains(s, <<COLON, COLON>>) THEN Split(s, <<COLON, COLON>>)
                    ELSE <<s>>
AllValid(items) == \A i \in 1..Len(items) : ValidId(items[i])
\* result: [ok |-> TRUE, items |-> ..] or [ok |-> FALSE] (NamespaceIdsTypeError)
NsIdsOfString(s) == LET it == ItemsOfString(s) IN
                    IF AllValid(it) THEN [ok |-> TRUE, items |-> it] ELSE [ok |-> FALSE, items |-> <<>>]
NsIdsOfList(items) == IF AllValid(items) THEN [ok |-> TRUE, items |-> items] ELSE [ok |-> FALSE, items |-> <<>>]

RECURSIVE JoinWith(_, _)
JoinWith(items, sep) == IF items = <<>> THEN <<>>
                        ELSE IF Len(items) = 1 THEN items[1]
                        ELSE items[1] \o sep \o JoinWith(Tail(items), sep)
Dotted(items)  == JoinWith(items, <<DOT>>)                \* str(NamespaceIds)
Coloned(items) == JoinWith(items, <<COLON, COLON>>)       \* str(cpp_gen.Fqn)

\* lossless conversion between list, dotted and '::' notation for valid values
NotationLaw(items) == AllValid(items) =>
  /\ NsIdsOfString(Dotted(items))  = [ok |-> TRUE, items |-> items]
  /\ NsIdsOfString(Coloned(items)) = [ok |-> TRUE, items |-> items]
\* whatever is handed out consists of valid identifiers only
HandedOutLaw(s) == NsIdsOfString(s).ok => AllValid(NsIdsOfString(s).items)
=============================================================================
