----------------------------- MODULE CppGenCases -----------------------------
EXTENDS CppGen, TLC, Json

CONSTANT Mode      \* "function" | "ctor" | "dtor" | "block"

T(ids, root, targ, post, const) == [ids |-> ids, root |-> root, targ |-> targ, post |-> post, const |-> const]
Void == T(<<"void">>, FALSE, <<>>, "", FALSE)
Int  == T(<<"int">>, FALSE, <<>>, "", FALSE)
NsT  == T(<<"ns", "T">>, TRUE, <<>>, "", FALSE)
CRef == T(<<"ns", "T">>, FALSE, <<>>, "&", TRUE)
Ptr  == T(<<"ns", "T">>, FALSE, <<>>, "*", FALSE)
Tpl  == T(<<"ns", "Box">>, TRUE, <<"ns", "T">>, "", FALSE)
RetTypes == {Void, Int, CRef, Tpl}
P(t, n, d) == [type |-> t, name |-> n, def |-> d]
ParamPool == { P(Int, "a", <<>>), P(Int, "n", <<"3">>), P(CRef, "s", <<"{", "}">>), P(Ptr, "p", <<"nullptr">>), P(Tpl, "b", <<>>) }
DistinctNames(ps) == \A i, j \in DOMAIN ps : i # j => ps[i].name # ps[j].name
ParamLists == {ps \in UNION {[1..m -> ParamPool] : m \in 0..2} : DistinctNames(ps)}
Bodies == { <<>>, << <<"int", "x", "=", "1", ";">> >>, << <<"int", "x", "=", "1", ";">>, <<"int", "y", "=", "x", ";">> >> }
Inits == { <<>>, <<"0">>, <<"default">>, <<"delete">> }

Functions == [kind : {"function"}, ret : RetTypes, name : {"f"}, params : ParamLists, prefix : {"", "virtual", "static"},
              cav : {"", "const"}, override : BOOLEAN, init : Inits, body : Bodies, scope : {"", "S"}]
\* (owner "T": a class named like the last identifier of a parameter type - still an ordinary converting constructor)
Ctors == [kind : {"ctor"}, scope : {"S", "T"}, explicit : BOOLEAN, params : ParamLists, init : Inits \ {<<"0">>},
          mil : { <<>>, << <<"m_a", "(", "1", ")">> >>, << <<"m_a", "(", "1", ")">>, <<"m_b", "{", "2", "}">> >> }, body : Bodies]
Dtors == [kind : {"dtor"}, scope : {"S"}, override : BOOLEAN, init : Inits \ {<<"0">>}, body : Bodies]
NmString == [raw |-> "string", sys |-> <<"string">>, q |-> "\"string\""]
NmVector == [raw |-> "vector", sys |-> <<"vector">>, q |-> "\"vector\""]
NmPump == [raw |-> "dzn/pump.hh", sys |-> <<"dzn", "/", "pump", ".", "hh">>, q |-> "\"dzn/pump.hh\""]
Sections == [kind : {"section"}, spec : {"", "public", "protected", "private"}, lines : {0, 1, 2}]
IncludeSets == [kind : {"includes"}, system : BOOLEAN,
                names : { <<NmString>>, <<NmPump, NmVector>>, <<>> }]
Members == [kind : {"member"}, type : {Int, NsT, CRef, Ptr, Tpl}, name : {"m_x"}]
\* ck: how the contents are given - a plain TextBlock, a TextBlock with a header, a Comment object, or "later": the block
\* is created without contents and filled in place afterwards (while another contents-less block of the same kind, filled
\* with other text, exists: blocks do not share their buffers), or "set": assigned through the contents setter
Blocks == [kind : {"block"}, ids : { <<>>, <<"A">>, <<"A", "B">>, <<"A", "B", "C">> }, kw : {"struct", "class"},
           lines : {0, 1, 2}, ck : {"plain", "header", "comment", "later", "set"}]

VARIABLE d
Init == d \in (CASE Mode = "function" -> Functions [] Mode = "ctor" -> Ctors [] Mode = "dtor" -> Dtors
                 [] Mode = "block" -> Blocks [] OTHER -> Sections \cup IncludeSets \cup Members)
Next == FALSE
Spec == Init /\ [][Next]_<<d>>

Laws == d.kind \in {"function", "ctor", "dtor"} => SameEntity(d) /\ NoDefWhenInitialised(d)

BlockContent(n) == CASE n = 0 -> <<>> [] n = 1 -> <<"int", "x", ";">> [] OTHER -> <<"int", "x", ";", "int", "y", ";">>
\* contents are rendered with str(): a header precedes the lines, a Comment is rendered with its // prefix
Content(b) == CASE b.ck = "header"  -> (IF b.lines = 0 THEN <<>> ELSE <<"int", "h", ";">> \o BlockContent(b.lines))
                [] b.ck = "comment" -> (CASE b.lines = 0 -> <<>> [] b.lines = 1 -> <<"//int", "x", ";">>
                                          [] OTHER -> <<"//int", "x", ";", "//int", "y", ";">>)
                [] OTHER -> BlockContent(b.lines)
Emit == PrintT(ToJson(
  IF d.kind = "section" THEN [d |-> d, toks |-> SectionTok(d.spec, BlockContent(d.lines))]
  ELSE IF d.kind = "includes" THEN [d |-> d, toks |-> IncludesTok(d.system, d.names)]
  ELSE IF d.kind = "member" THEN [d |-> d, toks |-> MemberTok(d.type, d.name)]
  ELSE IF d.kind = "block"
  THEN [d |-> d, ns |-> NamespaceTok(d.ids, Content(d)), st |-> StructTok(d.kw, "S", Content(d))]
  ELSE [d |-> d, valid |-> Valid(d), decl |-> IF Valid(d) THEN Decl(d) ELSE <<>>, def |-> IF Valid(d) THEN Def(d) ELSE <<>>]))
=============================================================================
