---------------------------- MODULE ScopingTrace ----------------------------
(***************************************************************************)
(* Trace validation for the lookup functions (C14, and the lookups that    *)
(* Builder.build performs for C07): each event is one recorded call        *)
(*   [op |-> "find_fqn", decls |-> <<[kind, fqn]..>>, name, scope, obs |-> <<[kind, fqn]..>>]  *)
(*   [op |-> "find_any", decls, name, obs]                                 *)
(*   [op |-> "order", name, scope, obs |-> <<fqn..>>]                      *)
(* and must equal what Scoping.tla prescribes: the same declarations, each *)
(* exactly once.                                                           *)
(***************************************************************************)
EXTENDS Scoping, TLC, TLCExt, Json, IOUtils

Traces  == ndJsonDeserialize(IOEnv.TRACE_FILE)
Explain == "EXPLAIN" \in DOMAIN IOEnv /\ IOEnv.EXPLAIN = "1"
VARIABLES t, l
vars == <<t, l>>
Ev == Traces[t].events
TInit == t \in DOMAIN Traces /\ l = 1

AsSet(s) == {s[i] : i \in DOMAIN s}
Model(e) == CASE e.op = "find_fqn" -> FindFqn(AsSet(e.decls), e.name, e.scope)
              [] e.op = "find_any" -> FindAny(AsSet(e.decls), e.name)
Explained(e) ==
  IF e.op = "order" THEN ResolutionOrder(e.name, e.scope) = e.obs
  ELSE /\ AsSet(e.obs) = Model(e)
       /\ Len(e.obs) = Cardinality(Model(e))              \* each once

TNext == /\ l <= Len(Ev) /\ l' = l + 1 /\ t' = t
         /\ IF Explain THEN (l < Len(Ev) \/ PrintT(<<"EXPECT", ToJson(
                  IF Ev[l].op = "order" THEN [obs |-> ResolutionOrder(Ev[l].name, Ev[l].scope)]
                  ELSE [obs |-> Model(Ev[l])])>>))
            ELSE Explained(Ev[l])
TSpec == TInit /\ [][TNext]_vars

ASSUME \A i \in DOMAIN Traces : TLCSet(i, 0)
Progress == TLCSet(t, IF TLCGet(t) < l - 1 THEN l - 1 ELSE TLCGet(t))
Rejected == {i \in DOMAIN Traces : TLCGet(i) < Len(Traces[i].events)}
Accepted == \A i \in Rejected : PrintT(<<"REJECTED", Traces[i].id, TLCGet(i) + 1>>)
=============================================================================
