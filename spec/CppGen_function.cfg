SPECIFICATION Spec
CONSTANT Mode = "function"
INVARIANT Laws
CONSTRAINT Emit
CHECK_DEADLOCK FALSE
