---------------------------- MODULE DznDocCases ----------------------------
(***************************************************************************)
(* Documents are built token by token; every balanced document is a case   *)
(* (printed with the model's Parse) and must satisfy the C05 laws.         *)
(***************************************************************************)
EXTENDS DznDoc, TLC, Json

CONSTANTS MaxTokens, MaxDepth, NsNames, Kinds, Names, Pays, WithSkips, WithTypes

VARIABLE doc
vars == <<doc>>

TypeSets == IF WithTypes
            THEN { <<>>, <<[kind |-> "enum", name |-> <<"E">>, pay |-> "p0"]>>,
                   <<[kind |-> "subint", name |-> <<"S">>, pay |-> "p0"], [kind |-> "bogus", name |-> <<"B">>, pay |-> "p0"],
                     [kind |-> "enum", name |-> <<"X">>, pay |-> "p1"]>>,
                   <<[kind |-> "extern", name |-> <<"T">>, pay |-> "p0"], [kind |-> "subint", name |-> <<"S">>, pay |-> "p1"]>> }
            ELSE { <<>> }
Tokens ==
  {[t |-> "open", ids |-> ids] : ids \in NsNames}
  \cup {[t |-> "close"]}
  \cup {[t |-> "decl", kind |-> k, name |-> n, pay |-> p, types |-> <<>>] : k \in Kinds \ {"interface"}, n \in Names, p \in Pays}
  \cup {[t |-> "decl", kind |-> "interface", name |-> n, pay |-> p, types |-> ty] :
           n \in (IF "interface" \in Kinds THEN Names ELSE {}), p \in Pays, ty \in TypeSets}
  \cup (IF WithSkips THEN {[t |-> "skip", why |-> w] : w \in {"unknown-class", "non-dict"}} ELSE {})

Init == doc = <<>>
Add(tok) == /\ Len(doc) < MaxTokens
            /\ (tok.t = "open" => Depth(doc) < MaxDepth)
            /\ (tok.t = "close" => Depth(doc) > 0)
            /\ Depth(doc) + (IF tok.t = "open" THEN 1 ELSE 0) <= MaxTokens - Len(doc) - 1 + (IF tok.t = "close" THEN 2 ELSE 0)
            /\ doc' = Append(doc, tok)
Next == \E tok \in Tokens : Add(tok)
Spec == Init /\ [][Next]_vars

Laws == Balanced(doc) => OneEntryPerDecl(doc) /\ SkipsAreInert(doc) /\ FqnLaw(doc)

Emit == ~Balanced(doc) \/ PrintT(ToJson([doc |-> doc, parsed |-> Parse(doc)]))
=============================================================================
