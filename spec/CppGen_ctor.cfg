SPECIFICATION Spec
CONSTANT Mode = "ctor"
INVARIANT Laws
CONSTRAINT Emit
CHECK_DEADLOCK FALSE
