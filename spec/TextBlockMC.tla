---------------------------- MODULE TextBlockMC ----------------------------
EXTENDS TextBlock
A == 97
B == 98
MCHostile == { StrV(<<42, 47, LF, 35, 105>>), StrV(<<SP, SP, A, 8232, 125, 59>>), StrV(<<LF, LF>>),
               StrV(<<A, 133, B, 12, A>>), ListV(<<StrV(<<>>), StrV(<<9, A, SP>>)>>), NoneV }
MCContents == { NoneV, StrV(<<>>), StrV(<<A, LF, LF, B, SP>>), StrV(<<SP, A, CR, LF>>),
                ListV(<<StrV(<<>>), StrV(<<8233, B>>), NoneV>>),
                [k |-> "block", h |-> << <<A>> >>, ls |-> << <<>>, <<SP, B>> >>],
                ListV(<<[k |-> "block", h |-> << <<A>> >>, ls |-> << <<B>> >>]>>) }
MCNoHeader == { NoneV }
MCNoCfgs == {}
MCHeaders == { NoneV, StrV(<<A, LF, B>>), ListV(<<>>) }
Cfg(tab, n, mode, glyph) == [tab |-> tab, n |-> n, mode |-> mode, glyph |-> glyph]
MCCfgs == { Cfg(FALSE, 4, "none", <<>>), Cfg(TRUE, 4, "none", <<>>), Cfg(FALSE, 3, "all", <<47, 47>>),
            Cfg(FALSE, 2, "first", <<45>>), Cfg(TRUE, 2, "first", <<45>>) }
=============================================================================
