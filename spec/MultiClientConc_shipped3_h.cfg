SPECIFICATION SpecD
CONSTANTS
  Clients = {"A", "B", "C"}
  Cycles = 1
  MaxOuts = 2
  DeselectChecksIdentity = TRUE
  SelectInDispatcher = FALSE
  StrayRelease = FALSE
PROPERTY MutualExclusion
INVARIANT DeliveryUnderLock
VIEW View
