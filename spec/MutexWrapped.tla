----------------------------- MODULE MutexWrapped -----------------------------
(***************************************************************************)
(* support_files/mutex_wrapped.py: MutexWrapped<T>::operator() hands out a *)
(* unique_ptr whose deleter owns the lock.  Threads acquire (blocking when *)
(* the lock is held), change the protected value through the handle,       *)
(* release explicitly (reset) or by letting the handle go out of scope     *)
(* (exit).  C11: at most one thread at a time has access; both ways of     *)
(* releasing let a blocked thread in.                                      *)
(***************************************************************************)
EXTENDS Naturals, Sequences, FiniteSets, TLC, Json

CONSTANTS Threads, MaxOps
None == "none"
VARIABLES owner, waiting, value, hist
vars == <<owner, waiting, value, hist>>
View == <<owner, waiting, value, Len(hist)>>

Init == owner = None /\ waiting = {} /\ value = 0 /\ hist = <<>>
Rec(a, t, o, w, v) == hist' = Append(hist, [a |-> a, t |-> t, owner |-> o, waiting |-> w, value |-> v])

Acquire(t) == /\ t # owner /\ t \notin waiting
              /\ IF owner = None THEN owner' = t /\ waiting' = waiting ELSE owner' = owner /\ waiting' = waiting \cup {t}
              /\ value' = value /\ Rec("acq", t, owner', waiting', value)
Inc(t) == /\ owner = t /\ value' = value + 1 /\ UNCHANGED <<owner, waiting>> /\ Rec("inc", t, owner, waiting, value + 1)
\* release (explicit reset or scope exit): a blocked thread, if any, gets the lock
Release(t, how) == /\ owner = t
                   /\ IF waiting = {} THEN owner' = None /\ waiting' = {}
                      ELSE \E w \in waiting : owner' = w /\ waiting' = waiting \ {w}
                   /\ value' = value /\ Rec(how, t, owner', waiting', value)
Next == /\ Len(hist) < MaxOps
        /\ \E t \in Threads : Acquire(t) \/ Inc(t) \/ Release(t, "reset") \/ Release(t, "exit")
Spec == Init /\ [][Next]_vars

AtMostOne == owner \notin waiting /\ (owner = None => waiting = {})
\* the value changes only through the owner's handle
OnlyOwnerWrites == [][value' # value => owner = owner' /\ owner # None]_vars
Emit == Len(hist) < MaxOps \/ PrintT(ToJson([hist |-> hist]))
=============================================================================
