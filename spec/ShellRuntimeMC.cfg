SPECIFICATION Spec
CONSTANT MaxSteps = 4
INVARIANT ExactlyOnce
INVARIANT ReplyCarried
INVARIANT ContextLaw
INVARIANT QueueLaw
INVARIANT BlockLaw
INVARIANT OnlyHolderReceives
CONSTRAINT Emit
CHECK_DEADLOCK FALSE
