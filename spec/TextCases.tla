----------------------------- MODULE TextCases -----------------------------
(***************************************************************************)
(* Every content value of a bounded universe is one initial state; the     *)
(* laws of property C17 are invariants of the model, and every state is    *)
(* printed as one JSON case that the harness replays through the real      *)
(* TextBlock / flatten_to_strlist / chunk / cond_chunk / trim_list.        *)
(***************************************************************************)
EXTENDS Indent, TLC, Json

CONSTANTS Alphabet,      \* code points used for enumerated strings
          MaxLen,        \* maximal length of an enumerated atom string
          Mode           \* "atoms" | "nested" | "cond"

StrsUpTo(n) == UNION {[1..m -> Alphabet] : m \in 0..n}

AtomStrs == {StrV(s) : s \in StrsUpTo(MaxLen)}

\* a small pool for nesting: None, "", text with and without breaks, numbers, blocks
A == 97
B == 98
Pool0 == { NoneV, StrV(<<>>), StrV(<<A>>), StrV(<<A, LF, B>>), StrV(<<LF>>), StrV(<<A, CR, LF>>),
           StrV(<<8232, B>>), StrV(<<SP>>), [k |-> "num", s |-> <<48>>], [k |-> "num", s |-> <<55>>] }
Blocks == { [k |-> "block", h |-> hh, ls |-> ll] :
              hh \in { <<>>, << <<A>> >> }, ll \in { <<>>, << <<B>> >>, << <<>>, <<B>> >> } }
SeqsUpTo(S, n) == UNION {[1..m -> S] : m \in 0..n}
Containers(S, n) == {[k |-> kk, items |-> xs] : kk \in {"list", "dict"}, xs \in SeqsUpTo(S, n)}
Level1 == Containers(Pool0 \cup Blocks, 2)
Pool1  == { ListV(<<>>), [k |-> "dict", items |-> <<>>], ListV(<<StrV(<<>>)>>), ListV(<<NoneV>>),
            ListV(<<StrV(<<A, LF>>), NoneV>>), [k |-> "dict", items |-> <<StrV(<<B>>), StrV(<<>>)>>],
            ListV(<<[k |-> "block", h |-> << <<A>> >>, ls |-> << <<B>> >>]>>) }
Level2 == Containers(Pool1 \cup {StrV(<<A>>), NoneV}, 2)

Universe == CASE Mode = "atoms"  -> AtomStrs
              [] Mode = "nested" -> Pool0 \cup Blocks \cup Level1 \cup Level2
              [] OTHER -> {}

\* cond_chunk cases: (preamble, content, empty_response, appendix, all_or_nothing)
CPool == { NoneV, StrV(<<>>), StrV(<<A>>), ListV(<<>>), ListV(<<NoneV>>), ListV(<<StrV(<<>>), StrV(<<B>>)>>),
           [k |-> "num", s |-> <<48>>], [k |-> "block", h |-> <<>>, ls |-> <<>>] }
CondCases == [pre : CPool, content : CPool, empty : CPool,
              appendix : {StrV(<<LF>>), NoneV, ListV(<<StrV(<<A>>), StrV(<<B>>)>>)}, aon : BOOLEAN]

VARIABLE v
vars == <<v>>

Init == IF Mode = "cond" THEN v \in CondCases ELSE v \in Universe
Next == FALSE
Spec == Init /\ [][Next]_vars

DefaultAppendix == StrV(<<LF>>)
Nested(x) == ListV(<<x>>)

(***************************************************************************)
(* C17 on the model                                                         *)
(***************************************************************************)
NoBreakInLines == Mode # "cond" => \A i \in 1..Len(AppendLines(v)) : ~HasBreak(AppendLines(v)[i])

RoundTrip == Mode # "cond" =>
  LET ls == AppendLines(v) IN ls # <<>> => AppendLines(StrV(StrOfBlock(<<>>, ls))) = ls

EmptyContributesNothing == Mode # "cond" =>
  /\ v.k = "none" => AppendLines(v) = <<>>
  /\ (v.k \in {"list", "dict"} /\ v.items = <<>>) => AppendLines(v) = <<>>
  /\ (v.k = "str" /\ v.s = <<>>) => AppendLines(v) = << <<>> >>

\* depth first, left to right: a container contributes the concatenation of its items' pieces
DepthFirst == Mode # "cond" =>
  (v.k \in {"list", "dict"} =>
     AppendLines(v) = Concat([i \in 1..Len(v.items) |-> AppendLines(Nested(v.items[i]))]))

ChunkLaw == Mode # "cond" =>
  LET c == ChunkLines(v, DefaultAppendix) IN
  IF Flatten(v, TRUE) = <<>> THEN ~c.some
  ELSE c.some /\ c.ls = AppendLines(Nested(v)) \o << <<>> >>

CondChunkLaw == Mode = "cond" =>
  LET r == CondChunkLines(v.pre, v.content, v.empty, v.appendix, v.aon)
      hasContent == Flatten(v.content, TRUE) # <<>>
  IN  /\ (hasContent => r.some /\ r.ls = AppendLines(Nested(ListV(<<StrListV(Flatten(v.pre, TRUE)), v.content>>)))
                                          \o AppendLines(Nested(StrListV(Flatten(v.appendix, TRUE)))))
      /\ (~hasContent /\ v.aon /\ ~Truthy(v.empty) => ~r.some)

\* cpp_gen.Comment(v) rendered (C19)
CommentCfg == [tab |-> FALSE, n |-> 3, mode |-> "all", glyph |-> <<47, 47>>]
Rendered(x) == ToList(CommentCfg, AppendLines(x))
CommentLaw == Mode # "cond" =>
  LET src == AppendLines(v)  out == Rendered(v) IN
  /\ Len(out) = Len(src)
  /\ \A i \in 1..Len(src) :
        /\ IsPrefix(<<47, 47>>, out[i]) /\ ~HasBreak(out[i])
        /\ out[i] = (IF IsBlankStr(src[i]) THEN <<47, 47>> ELSE <<47, 47, SP>> \o RStrip(src[i]))

Case ==
  IF Mode = "cond"
  THEN [mode |-> Mode, v |-> v, r |-> CondChunkLines(v.pre, v.content, v.empty, v.appendix, v.aon)]
  ELSE [mode |-> Mode, v |-> v, app |-> AppendLines(v), flT |-> Flatten(v, TRUE), flF |-> Flatten(v, FALSE),
        str |-> StrOfBlock(<<>>, AppendLines(v)), truthy |-> Truthy(v),
        chunk |-> ChunkLines(v, DefaultAppendix), render |-> StrOfBlock(<<>>, Rendered(v)),
        trim |-> TrimLines(AppendLines(v), FALSE), trimEnd |-> TrimLines(AppendLines(v), TRUE)]
Emit == PrintT(ToJson(Case))
=============================================================================
