SPECIFICATION Spec
CONSTANTS
  Mode = "history"
  MaxBuilds = 3
INVARIANT HistoryIndependent
CONSTRAINT Emit
CHECK_DEADLOCK FALSE
