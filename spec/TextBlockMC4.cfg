SPECIFICATION Spec
CONSTANTS
  Contents <- MCContents
  Headers <- MCHeaders
  Cfgs <- MCCfgs
  MaxOps = 4
  IsComment = FALSE
INVARIANT NoBreakInLines
INVARIANT NoBreakInHeader
INVARIANT StrForm
INVARIANT RoundTrip
PROPERTY TrimOnlyEnds
PROPERTY AppendIsConcat
PROPERTY HeaderUntouched
PROPERTY IndentKeepsCount
PROPERTY BareUsesConfigured
CONSTRAINT Emit
CHECK_DEADLOCK FALSE
