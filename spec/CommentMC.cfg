SPECIFICATION Spec
CONSTANTS
  Contents <- MCHostile
  Headers <- MCNoHeader
  Cfgs <- MCNoCfgs
  MaxOps = 4
  IsComment = TRUE
INVARIANT NoBreakInLines
INVARIANT NoBreakInHeader
INVARIANT StrForm
INVARIANT RoundTrip
INVARIANT CommentLaw
PROPERTY RenderReadOnly
PROPERTY TrimOnlyEnds
PROPERTY AppendIsConcat
PROPERTY HeaderUntouched
PROPERTY IndentKeepsCount
CONSTRAINT Emit
CHECK_DEADLOCK FALSE
