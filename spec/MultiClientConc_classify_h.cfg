SPECIFICATION SpecD
CONSTANTS
  Clients = {"A", "B"}
  Cycles = 2
  MaxOuts = 2
  DeselectChecksIdentity = TRUE
  SelectInDispatcher = FALSE
  StrayRelease = TRUE
PROPERTY MutualExclusion
INVARIANT DeliveryUnderLock
VIEW View
CONSTRAINT Classify
