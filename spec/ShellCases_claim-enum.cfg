SPECIFICATION Spec
CONSTANT Mode = "claim-enum"
INVARIANT C07Law
INVARIANT C13Law
CONSTRAINT Emit
CHECK_DEADLOCK FALSE
