--------------------------- MODULE ShellStructure ---------------------------
(***************************************************************************)
(* What adv_shell.Builder.build decides from (model, configuration):       *)
(* which declaration every written name denotes (C07), whether the build   *)
(* succeeds and with which file set or fails and with which diagnosed      *)
(* error (C13), the semantics of every exposed port (C03) and - for the    *)
(* runtime specifications - the routing table of the generated shell.      *)
(*                                                                         *)
(* Model: a sequence of declarations                                       *)
(*   [kind, fqn, events, fields, cpp, ports]   (unused fields are empty)   *)
(*   event  = [name, dir, reply, formals]; formal = [name, type, dir]      *)
(*   port   = [name, type, dir, inj]                                       *)
(* Configuration: [enc, prov, req, mc, origin, prefix, suffix, base]       *)
(*   mc = [on, port, claim, grant, release]                                *)
(***************************************************************************)
EXTENDS Scoping, PortSelection, Sequences

Front(s) == SubSeq(s, 1, Len(s) - 1)
Last(s)  == s[Len(s)]

IdxFind(decls, name, scope) ==
  {i \in DOMAIN decls : decls[i].kind \in Searchable /\ decls[i].fqn \in Range(ResolutionOrder(name, scope))}

\* FindResult.get_single_instance(kind): the unique declaration on the scope chain, of the wanted kind
Resolve(decls, name, scope, kinds) ==
  LET F == IdxFind(decls, name, scope) IN
  IF F = {} THEN [r |-> "none", i |-> 0]
  ELSE IF Cardinality(F) > 1 THEN [r |-> "ambiguous", i |-> 0]
  ELSE LET i == CHOOSE j \in F : TRUE IN
       IF decls[i].kind \notin kinds THEN [r |-> "wrong-kind", i |-> i] ELSE [r |-> "ok", i |-> i]

Err(kind, exc) == [ok |-> FALSE, kind |-> kind, exc |-> exc]
NoErr == [ok |-> TRUE, kind |-> "", exc |-> ""]

PortNames(ports, dir, inj) == {ports[k].name : k \in {j \in DOMAIN ports : ports[j].dir = dir /\ ports[j].inj = inj}}
EventsOf(itf, dir) == SelectSeq(itf.events, LAMBDA e : e.dir = dir)
EventNamed(itf, n) == {k \in DOMAIN itf.events : itf.events[k].name = n}
FirstEventNamed(itf, n) == itf.events[CHOOSE k \in EventNamed(itf, n) : \A j \in EventNamed(itf, n) : k <= j]

\* check_multiclient_cfg for the port the configuration names
McCheck(decls, mc, itf) ==
  IF EventNamed(itf, mc.claim) = {} THEN Err("mc-claim-event", "MultiClientCfgError")
  ELSE LET ce == FirstEventNamed(itf, mc.claim)
           en == Resolve(decls, ce.reply, itf.fqn, {"enum"}) IN
       IF en.r # "ok" THEN Err("mc-reply-not-enum", "MultiClientCfgError")
       ELSE IF mc.grant = <<>> \/ mc.grant[1] \notin {decls[en.i].fields[k] : k \in DOMAIN decls[en.i].fields}
            THEN Err("mc-grant-value", "MultiClientCfgError")
       ELSE IF EventNamed(itf, mc.release) = {} THEN Err("mc-release-event", "MultiClientCfgError")
       \* the release event is what a client calls to give the claim back: an in-event other than the claim event
       ELSE IF FirstEventNamed(itf, mc.release).dir # "in" \/ mc.release = mc.claim
            THEN Err("mc-release-event", "MultiClientCfgError")
       ELSE NoErr

\* the first error create_dzn_elements runs into, ports in declaration order
RECURSIVE PortLoop(_, _, _, _, _)
PortLoop(decls, cfg, enc, f, k) ==
  IF k > Len(enc.ports) THEN NoErr
  ELSE LET p == enc.ports[k]
           it == Resolve(decls, p.type, Front(enc.fqn), {"interface"}) IN
       IF it.r # "ok" THEN Err(CASE it.r = "none" -> "port-type-none" [] it.r = "ambiguous" -> "port-type-ambiguous"
                                 [] OTHER -> "port-type-wrong-kind", "FindError")
       ELSE LET mcHere == cfg.mc.on /\ p.dir = "provides" /\ p.name = cfg.mc.port
                mcr == IF mcHere THEN McCheck(decls, cfg.mc, decls[it.i]) ELSE NoErr IN
            IF ~mcr.ok THEN mcr
            ELSE IF (p.dir = "provides" \/ ~p.inj) /\ f[p.name] = "UNASSIGNED"
                 THEN Err("port-unassigned", "AdvShellError")
            ELSE IF mcHere /\ f[p.name] # "MTS" THEN Err("mc-port-not-mts", "ValueError")
            ELSE PortLoop(decls, cfg, enc, f, k + 1)

\* events whose formal types the generator looks up (only ports rerouted through the dispatcher)
Mentioned(itf, p, sem, isMc) ==
  IF sem # "MTS" THEN <<>>
  ELSE IF p.dir = "provides" THEN (IF isMc THEN itf.events ELSE EventsOf(itf, "in"))
  ELSE EventsOf(itf, "out")

FormalErrs(decls, itf, evs) ==
  {<<e, k>> \in (DOMAIN evs) \X (1..8) :
      k \in DOMAIN evs[e].formals /\ Resolve(decls, evs[e].formals[k].type, itf.fqn, {"extern"}).r # "ok"}

BuildOutcome(decls, cfg) ==
  LET E == IdxFind(decls, cfg.enc, <<>>) IN
  IF E = {} THEN Err("encapsulee-not-found", "AdvShellError")
  ELSE IF Cardinality(E) > 1 THEN Err("encapsulee-ambiguous", "FindError")
  ELSE LET enc == decls[CHOOSE i \in E : TRUE] IN
  IF enc.kind \notin {"component", "system"} THEN Err("encapsulee-kind", "AdvShellError")
  ELSE LET P == {enc.ports[k].name : k \in {j \in DOMAIN enc.ports : enc.ports[j].dir = "provides"}}
           R == PortNames(enc.ports, "requires", FALSE)
           Inj == PortNames(enc.ports, "requires", TRUE)
       IN
       IF MatchRejected(cfg.prov, P) \/ MatchRejected(cfg.req, R \cup Inj) THEN Err("selection-unknown-port", "AdvShellError")
       ELSE LET f == Assignment(cfg.prov, cfg.req, P, R)
                loop == PortLoop(decls, cfg, enc, f, 1) IN
       IF ~loop.ok THEN loop
       ELSE IF cfg.mc.on /\ cfg.mc.port \notin P THEN Err("mc-port-not-found", "AdvShellError")
       ELSE IF \E k \in DOMAIN enc.ports :
                 LET p == enc.ports[k] IN
                 (p.dir = "provides" \/ ~p.inj) /\
                 LET itf == decls[Resolve(decls, p.type, Front(enc.fqn), {"interface"}).i] IN
                 FormalErrs(decls, itf, Mentioned(itf, p, f[p.name], cfg.mc.on /\ p.dir = "provides" /\ p.name = cfg.mc.port)) # {}
            THEN Err("formal-type", "FindError")
       ELSE NoErr


(***************************************************************************)
(* The routing table of the generated shell (vocabulary of ShellRuntime):  *)
(* one record per (port, event) of every exposed port, ports and events in *)
(* declaration order.  Defined for models/configurations that build.       *)
(***************************************************************************)
RECURSIVE ConcatSeqs(_)
ConcatSeqs(ss) == IF ss = <<>> THEN <<>> ELSE Head(ss) \o ConcatSeqs(Tail(ss))

ReplyKind(decls, itf, e) ==
  IF e.reply = <<"void">> THEN "void" ELSE IF e.reply = <<"bool">> THEN "bool" ELSE IF e.reply = <<"int">> THEN "int"
  ELSE LET r == Resolve(decls, e.reply, itf.fqn, {"enum", "subint"}) IN IF r.r = "ok" THEN decls[r.i].kind ELSE "void"

KindOf(dir, edir) == IF dir = "provides" THEN (IF edir = "in" THEN "provides-in" ELSE "provides-out")
                     ELSE (IF edir = "in" THEN "requires-in" ELSE "requires-out")
MechOf(dir, edir, sem, isMc) ==
  IF sem = "STS" THEN "direct"
  ELSE IF dir = "provides" THEN (IF edir = "in" THEN "shell" ELSE IF isMc THEN "select" ELSE "ref")
  ELSE (IF edir = "out" THEN "post" ELSE "ref")

RouteOf(decls, cfg) ==
  LET enc == decls[CHOOSE i \in IdxFind(decls, cfg.enc, <<>>) : TRUE]
      P == {enc.ports[k].name : k \in {j \in DOMAIN enc.ports : enc.ports[j].dir = "provides"}}
      R == PortNames(enc.ports, "requires", FALSE)
      f == Assignment(cfg.prov, cfg.req, P, R)
      exposed == SelectSeq(enc.ports, LAMBDA p : p.dir = "provides" \/ ~p.inj)
      PortRoutes(p) ==
        LET itf == decls[Resolve(decls, p.type, Front(enc.fqn), {"interface"}).i]
            isMc == cfg.mc.on /\ p.dir = "provides" /\ p.name = cfg.mc.port
        IN [k \in 1..Len(itf.events) |->
              LET e == itf.events[k] IN
              [port |-> p.name, event |-> e.name, kind |-> KindOf(p.dir, e.dir),
               mech |-> MechOf(p.dir, e.dir, f[p.name], isMc), sem |-> f[p.name], mc |-> isMc,
               role |-> IF isMc /\ e.dir = "in" THEN (IF e.name = cfg.mc.claim THEN "claim" ELSE IF e.name = cfg.mc.release THEN "release" ELSE "") ELSE "",
               dirs |-> [j \in 1..Len(e.formals) |-> e.formals[j].dir],
               reply |-> ReplyKind(decls, itf, e)]]
  IN ConcatSeqs([k \in 1..Len(exposed) |-> PortRoutes(exposed[k])])

(***************************************************************************)
(* Wiring: the statements the generated source must contain, as a set of   *)
(* facts (C01/C02/C10 at the level of the generated text; the harness      *)
(* scans the real .cc into the same vocabulary).  Ports are identified by  *)
(* their Dezyne name; C++ parameter types are those of the extern the      *)
(* written type name resolves to from the interface scope.                 *)
(***************************************************************************)
\* an extern whose C++ text is itself a reference type is given as [cpp |-> text without '&', cppref |-> TRUE]
ExtOf(decls, itf, fm) == decls[Resolve(decls, fm.type, itf.fqn, {"extern"}).i]
Params(decls, itf, e, withRef) ==
  [j \in 1..Len(e.formals) |-> [cpp |-> ExtOf(decls, itf, e.formals[j]).cpp,
                                ref |-> (withRef /\ e.formals[j].dir # "in") \/ ExtOf(decls, itf, e.formals[j]).cppref,
                                name |-> e.formals[j].name]]
ArgNames(e) == [j \in 1..Len(e.formals) |-> e.formals[j].name]
InArgNames(e) == LET ins == SelectSeq(e.formals, LAMBDA fm : fm.dir = "in") IN [j \in 1..Len(ins) |-> ins[j].name]

WiringOf(decls, cfg) ==
  LET enc == decls[CHOOSE i \in IdxFind(decls, cfg.enc, <<>>) : TRUE]
      P == {enc.ports[k].name : k \in {j \in DOMAIN enc.ports : enc.ports[j].dir = "provides"}}
      R == PortNames(enc.ports, "requires", FALSE)
      f == Assignment(cfg.prov, cfg.req, P, R)
      exposed == {k \in DOMAIN enc.ports : enc.ports[k].dir = "provides" \/ ~enc.ports[k].inj}
      Facts(k) ==
        LET p == enc.ports[k]
            itf == decls[Resolve(decls, p.type, Front(enc.fqn), {"interface"}).i]
            isMc == cfg.mc.on /\ p.dir = "provides" /\ p.name = cfg.mc.port
            mts == f[p.name] = "MTS"
            ev(d) == {j \in DOMAIN itf.events : itf.events[j].dir = d}
            E(j) == itf.events[j]
        IN {[k |-> "accessor", port |-> p.name, dir |-> p.dir, strict |-> (IF mts THEN "Mts" ELSE "Sts"), mc |-> isMc,
             itf |-> itf.fqn, target |-> (IF ~mts THEN "encapsulee" ELSE IF isMc THEN "selector" ELSE "boundary"),
             rooted |-> TRUE]}                  \* types are spelled from the global namespace (::A::I), never relative
           \cup (IF isMc THEN {[k |-> "mc-final", port |-> p.name]}
                         ELSE {[k |-> "check", port |-> p.name, target |-> (IF mts THEN "boundary" ELSE "encapsulee")]})
           \cup (IF mts THEN {[k |-> "meta-name", port |-> p.name, side |-> (IF p.dir = "provides" THEN "require" ELSE "provide")],
                               [k |-> "member", port |-> p.name, init |-> (IF isMc THEN "selector" ELSE "copy")]} ELSE {})
           \cup (IF mts /\ p.dir = "provides"
                 THEN {[k |-> "reroute-in", port |-> p.name, mc |-> isMc, event |-> E(j).name, params |-> Params(decls, itf, E(j), TRUE),
                        captures |-> InArgNames(E(j)), args |-> ArgNames(E(j))] : j \in ev("in")}
                      \cup (IF isMc
                            THEN {[k |-> "mc-out", port |-> p.name, event |-> E(j).name, params |-> Params(decls, itf, E(j), FALSE),
                                   args |-> ArgNames(E(j))] : j \in ev("out")}
                                 \cup {[k |-> "mc-ref-out", port |-> p.name, event |-> E(j).name] : j \in ev("out")}
                                 \cup {IF E(j).name = cfg.mc.claim
                                       THEN [k |-> "client-claim", port |-> p.name, event |-> E(j).name,
                                             params |-> Params(decls, itf, E(j), TRUE), args |-> ArgNames(E(j)),
                                             grant |-> decls[Resolve(decls, E(j).reply, itf.fqn, {"enum"}).i].fqn \o <<cfg.mc.grant[1]>>]
                                       ELSE IF E(j).name = cfg.mc.release
                                       THEN [k |-> "client-release", port |-> p.name, event |-> E(j).name,
                                             params |-> Params(decls, itf, E(j), TRUE), args |-> ArgNames(E(j))]
                                       ELSE [k |-> "client-ref", port |-> p.name, event |-> E(j).name] : j \in ev("in")}
                            ELSE {[k |-> "ref-out", port |-> p.name, event |-> E(j).name] : j \in ev("out")})
                 ELSE IF mts
                 THEN {[k |-> "reroute-out", port |-> p.name, event |-> E(j).name, params |-> Params(decls, itf, E(j), FALSE),
                        captures |-> InArgNames(E(j)), args |-> ArgNames(E(j))] : j \in ev("out")}
                      \cup {[k |-> "ref-in", port |-> p.name, event |-> E(j).name] : j \in ev("in")}
                 ELSE {})
  IN UNION {Facts(k) : k \in exposed}
     \cup {[k |-> "check-encapsulee"], [k |-> "parent"], [k |-> "origin", v |-> cfg.origin]}

\* configuration objects are validated when they are constructed, before build is ever called
ConfigRejected(cfg) == PSCRejected(cfg.prov.sts, cfg.prov.mts) \/ PSCRejected(cfg.req.sts, cfg.req.mts)
                       \/ CfgRejected(cfg.prov)
                       \* MultiClientPortCfg refuses empty settings
                       \/ (cfg.mc.on /\ (cfg.mc.port = "" \/ cfg.mc.claim = "" \/ cfg.mc.grant = <<>> \/ cfg.mc.release = ""))

\* names of the eight files of a successful build
PrefixStr(prefix) == prefix \o <<"Dzn">>
SupportNames == <<"StrictPort", "ILog", "MiscUtils", "MetaHelpers", "MultiClientSelector", "MutexWrapped">>
=============================================================================
