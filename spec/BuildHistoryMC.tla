---------------------------- MODULE BuildHistoryMC ----------------------------
(***************************************************************************)
(* Scenario generator.  Mode "history" (C12): every sequence of up to      *)
(* MaxBuilds builds in one process over parsed-model objects (two distinct *)
(* parses of one document and one parse of another), configurations (valid *)
(* ones, one refused when constructed, one refused by build, a multi-      *)
(* client one) and builder instances (one shared, or a fresh one).         *)
(* Mode "configs" (C08): every configuration that names ports explicitly   *)
(* (2..3 names on a side), to be built under permuted set-construction     *)
(* orders and hash seeds by the harness.                                   *)
(* The model of a build: out = Ref[model of object, configuration].        *)
(***************************************************************************)
EXTENDS Naturals, Sequences, FiniteSets, TLC, Json

CONSTANTS Mode, MaxBuilds

Objs  == {"a1", "a2", "b"}                  \* a1, a2: two parses of document A; b: document B
DocOf(o) == IF o = "b" THEN "B" ELSE "A"
Cfgs  == {"sts", "mts", "named", "mc", "bad-config", "bad-build", "prefixed", "prefixed-alias"}
\* "prefixed" uses the support-file prefix My.Lib, "prefixed-alias" the single identifier My_Lib: different
\* namespaces, identical file names
Builders == {"shared", "fresh"}

VARIABLES hist, cfg
vars == <<hist, cfg>>

PNames == {"p1", "p2", "p3"}
RNames == {"r1", "r2", "r3"}
Sel(w, s) == [w |-> w, s |-> s]
ReqChoices == {[sts |-> Sel("SET", S), mts |-> Sel("SET", T)] : S \in SUBSET RNames, T \in SUBSET RNames}
ValidReq(r) == /\ r.sts.s \cap r.mts.s = {} /\ r.sts.s # {} /\ r.mts.s # {}
               /\ r.sts.s \cup r.mts.s = RNames
ReqWild == {[sts |-> Sel("SET", S), mts |-> Sel("REMAINING", {})] : S \in {X \in SUBSET RNames : Cardinality(X) >= 2}}
            \cup {[sts |-> Sel("REMAINING", {}), mts |-> Sel("SET", S)] : S \in {X \in SUBSET RNames : Cardinality(X) >= 2}}
ProvChoices == {[sts |-> Sel("SET", PNames), mts |-> Sel("NONE", {})], [sts |-> Sel("NONE", {}), mts |-> Sel("SET", PNames)],
                [sts |-> Sel("SET", {"p1", "p2"}), mts |-> Sel("NONE", {})], [sts |-> Sel("ALL", {}), mts |-> Sel("NONE", {})]}
ConfigSpace == {[prov |-> p, req |-> r, mc |-> m] :
                  p \in ProvChoices, r \in {x \in ReqChoices : ValidReq(x)} \cup ReqWild, m \in BOOLEAN}
ValidCfg(c) == /\ (c.mc => c.prov.mts.w = "SET")
               /\ (c.prov.sts.s = {"p1", "p2"} => FALSE)          \* leaves p3 unassigned: not a valid configuration

Init == IF Mode = "history" THEN hist = <<>> /\ cfg = [prov |-> 0, req |-> 0, mc |-> FALSE]
        ELSE hist = <<>> /\ cfg \in {c \in ConfigSpace : ValidCfg(c)}
Build(o, c, b) == hist' = Append(hist, [obj |-> o, cfg |-> c, builder |-> b, expect |-> <<DocOf(o), c>>]) /\ UNCHANGED cfg
Next == /\ Mode = "history" /\ Len(hist) < MaxBuilds
        /\ \E o \in Objs, c \in Cfgs, b \in Builders : Build(o, c, b)
Spec == Init /\ [][Next]_vars

\* the model's statement of C12: what a build returns depends on (document, configuration) only
HistoryIndependent == \A i \in 1..Len(hist) : hist[i].expect = <<DocOf(hist[i].obj), hist[i].cfg>>

Emit == IF Mode = "history" THEN (hist = <<>> \/ PrintT(ToJson([hist |-> hist])))
        ELSE PrintT(ToJson([cfg |-> cfg]))
=============================================================================
