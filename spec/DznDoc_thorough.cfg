SPECIFICATION Spec
CONSTANTS
  MaxTokens = 5
  MaxDepth = 3
  NsNames <- NsSmall
  Kinds <- KindsSmall
  Names <- NamesTwo
  Pays = {"p0"}
  WithSkips = TRUE
  WithTypes = TRUE
INVARIANT Laws
CONSTRAINT Emit
CHECK_DEADLOCK FALSE
