SPECIFICATION Spec
CONSTANTS
  MaxTokens = 7
  MaxDepth = 3
  NsNames <- NsSmall
  Kinds <- KindsOne
  Names <- NamesOne
  Pays = {"p0"}
  WithSkips = FALSE
  WithTypes = FALSE
INVARIANT Laws
CONSTRAINT Emit
CHECK_DEADLOCK FALSE
