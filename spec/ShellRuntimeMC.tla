--------------------------- MODULE ShellRuntimeMC ---------------------------
(***************************************************************************)
(* Exhaustive exploration of ShellRuntime.tla for one routing table (read  *)
(* from the file named by the environment variable CX_FILE, written by the *)
(* harness from its model of the program under test).  After a fixed,      *)
(* complete setup every interleaving of client calls, peer raises,         *)
(* component events, script changes and dispatcher steps up to MaxSteps is *)
(* explored.  The properties C01/C02/C04 are invariants over the history   *)
(* of observations; every history is printed and replayed on the compiled  *)
(* shell, which must produce exactly these observations.                   *)
(***************************************************************************)
EXTENDS ShellRuntime, TLC, Json, IOUtils

CONSTANT MaxSteps
Cx == JsonDeserialize(IOEnv.CX_FILE)
Clients == IF HasMc(Cx) THEN {"A", "B"} ELSE {}

VARIABLES st, hist
vars == <<st, hist>>

RECURSIVE ApplyAll(_, _)
ApplyAll(s, cmds) == IF cmds = <<>> THEN s ELSE ApplyAll(Apply(Cx, s, Head(cmds)).st, Tail(cmds))
SetToSeq(S) == CHOOSE q \in [1..Cardinality(S) -> S] : \A i, j \in 1..Cardinality(S) : i # j => q[i] # q[j]
Setup ==
  <<[c |-> "construct", bits |-> IF Cx.origin = "create" THEN <<FALSE, FALSE, TRUE>> ELSE <<TRUE, TRUE, FALSE>>]>>
  \o [i \in 1..Cardinality(Clients) |-> [c |-> "register", id |-> SetToSeq(Clients)[i]]]
  \o <<[c |-> "bind", port |-> "*", event |-> "*", client |-> ""]>>
  \o [i \in 1..Cardinality(Clients) |-> [c |-> "bind", port |-> "*", event |-> "*", client |-> SetToSeq(Clients)[i]]]
  \o <<[c |-> "final"]>>

Init == st = ApplyAll(Init0, Setup) /\ hist = <<>>

NumIn(r) == Cardinality({k \in DOMAIN r.dirs : r.dirs[k] \in {"in", "inout"}})
Tokens(r, n) == [k \in 1..NumIn(r) |-> 100 * n + k]           \* distinct argument values per call and position
Who(n) == "t" \o ToString(n)

Commands ==
  LET n == Len(hist) + 1 IN
  {[c |-> "pump"]}
  \cup {[c |-> "call", who |-> Who(n), port |-> Cx.route[i].port, client |-> cl, event |-> Cx.route[i].event,
         args |-> Tokens(Cx.route[i], n)] :
          i \in {j \in DOMAIN Cx.route : Cx.route[j].kind = "provides-in"},
          cl \in (IF \E j \in DOMAIN Cx.route : Cx.route[j].mc THEN Clients \cup {""} ELSE {""})}
  \cup {[c |-> "raise", who |-> Who(n), port |-> Cx.route[i].port, event |-> Cx.route[i].event, args |-> Tokens(Cx.route[i], n)] :
          i \in {j \in DOMAIN Cx.route : Cx.route[j].kind = "requires-out"}}
  \cup {[c |-> "comp", who |-> "main", port |-> Cx.route[i].port, event |-> Cx.route[i].event, args |-> Tokens(Cx.route[i], n)] :
          i \in {j \in DOMAIN Cx.route : Cx.route[j].kind \in {"provides-out", "requires-in"}}}
  \cup {[c |-> "script", port |-> Cx.route[i].port, event |-> Cx.route[i].event, v |-> v] :
          i \in {j \in DOMAIN Cx.route : Cx.route[j].role = "claim"}, v \in {Cx.grant, 1 - Cx.grant}}

WellFormed(cmd) == IF cmd.c = "call" THEN (R(Cx, cmd.port, cmd.event).mc <=> cmd.client # "") ELSE TRUE

Next == /\ Len(hist) < MaxSteps
        /\ \E cmd \in Commands :
             /\ WellFormed(cmd)
             /\ LET a == Apply(Cx, st, cmd) IN st' = a.st /\ hist' = Append(hist, [cmd |-> cmd, obs |-> a.obs])
Spec == Init /\ [][Next]_vars

(***************************************************************************)
(* Invariants over the history                                              *)
(***************************************************************************)
AllLog == [i \in 1..Len(hist) |-> hist[i].obs.log]
Deliveries(tok) == {<<i, k>> \in (1..Len(hist)) \X (1..4) :
                       k \in DOMAIN hist[i].obs.log /\ hist[i].obs.log[k].args # <<>> /\ hist[i].obs.log[k].args[1] = tok}
Issued == {i \in 1..Len(hist) : hist[i].cmd.c \in {"call", "raise", "comp"} /\ hist[i].cmd.args # <<>>}
Idle == st.queue = <<>> /\ st.blocked = {}
\* C01: never delivered twice; delivered exactly once when nothing is in flight (unless nobody holds the claim);
\* always at the same-named event of the same-named port with the same argument values
ExactlyOnce ==
  \A i \in Issued :
    LET d == Deliveries(hist[i].cmd.args[1])
        r == R(Cx, hist[i].cmd.port, hist[i].cmd.event) IN
    /\ Cardinality(d) <= 1
    /\ (Idle /\ r.mech # "select" /\ hist[i].obs.res.ok => Cardinality(d) = 1)
    /\ \A x \in d : LET e == hist[x[1]].obs.log[x[2]] IN
         e.port = hist[i].cmd.port /\ e.event = hist[i].cmd.event /\ e.args = hist[i].cmd.args
\* C01: reply and out-arguments are carried back to the caller
ReplyCarried ==
  \A i \in 1..Len(hist) : \A dn \in hist[i].obs.done :
    LET origin == CHOOSE j \in 1..i : hist[j].cmd.c \in {"call", "raise"} /\ hist[j].cmd.who = dn.who IN
    (dn.ok /\ hist[origin].cmd.c = "call") =>
       \E k \in DOMAIN hist[i].obs.log :
          LET e == hist[i].obs.log[k] IN
          /\ e.port = hist[origin].cmd.port /\ e.event = hist[origin].cmd.event /\ e.args = hist[origin].cmd.args
          /\ e.outs = dn.outs /\ (e.reply = dn.reply \/ (e.reply # 0 /\ dn.reply = 1))
\* C02: context and queueing follow the configured semantics
ContextLaw ==
  \A i \in 1..Len(hist) : \A k \in DOMAIN hist[i].obs.log :
    LET e == hist[i].obs.log[k] r == R(Cx, e.port, e.event) IN
    e.side = "comp" => IF r.mech \in {"shell", "post"} THEN e.ctx = "disp" /\ hist[i].cmd.c = "pump"
                       ELSE e.ctx # "disp" /\ hist[i].cmd.c # "pump"
QueueLaw == \A k \in DOMAIN st.queue : R(Cx, st.queue[k].port, st.queue[k].event).mech \in {"shell", "post"}
BlockLaw == \A w \in st.blocked : \E k \in DOMAIN st.queue : st.queue[k].who = w /\ st.queue[k].kind = "shell"
\* C04: out-events of the multi-client port go to the claim holder
HolderReceives == SelectionFaithful(st)
OnlyHolderReceives ==
  \A i \in 1..Len(hist) : \A k \in DOMAIN hist[i].obs.log :
    hist[i].obs.log[k].side = "user" /\ R(Cx, hist[i].obs.log[k].port, hist[i].obs.log[k].event).mech = "select"
      => hist[i].obs.log[k].client # ""

Emit == hist = <<>> \/ Len(hist) < MaxSteps \/ PrintT(ToJson([setup |-> Setup, hist |-> hist]))
=============================================================================
