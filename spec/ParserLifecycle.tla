-------------------------- MODULE ParserLifecycle --------------------------
(***************************************************************************)
(* json_ast.DznJsonAst as an object with a life cycle (property C16):      *)
(* instances are constructed (with or without a document), load documents  *)
(* and are asked to process() - any number of times, in any interleaving.  *)
(* The model: the result of Process(i) is Outcome(document loaded in i),   *)
(* nothing else is read.  Every history is replayed on real instances.     *)
(***************************************************************************)
EXTENDS DznDoc, TLC, Json

CONSTANTS Inst, DocIds, DocOf, MaxOps

None == "none"
VARIABLES made, loaded, hist
vars == <<made, loaded, hist>>

Init == made = [i \in Inst |-> FALSE] /\ loaded = [i \in Inst |-> None] /\ hist = <<>>

Res(d) == IF d = None THEN "error" ELSE IF Outcome(DocOf[d]).ok THEN d ELSE "error"

\* DznJsonAst(json_contents = document d, or nothing)
PNew(i, d) == /\ made' = [made EXCEPT ![i] = TRUE] /\ loaded' = [loaded EXCEPT ![i] = d]
              /\ hist' = Append(hist, [op |-> "new", i |-> i, d |-> d])
\* load_file(path of document d)
PLoad(i, d) == /\ made[i] /\ loaded' = [loaded EXCEPT ![i] = d] /\ UNCHANGED made
               /\ hist' = Append(hist, [op |-> "load", i |-> i, d |-> d])
\* process(): returns the parse of the instance's own document, or fails with the parser's error
PProcess(i) == /\ made[i] /\ UNCHANGED <<made, loaded>>
               /\ hist' = Append(hist, [op |-> "process", i |-> i, expect |-> Res(loaded[i])])

Next == /\ Len(hist) < MaxOps
        /\ \E i \in Inst : \/ \E d \in DocIds \cup {None} : PNew(i, d)
                           \/ \E d \in DocIds : PLoad(i, d)
                           \/ PProcess(i)
Spec == Init /\ [][Next]_vars

\* C16 on the model: processing never changes what any instance holds, so repeating it (with any other
\* calls on other instances in between) yields the same result
ProcessPure == [][\A i \in Inst : PProcess(i) => UNCHANGED <<made, loaded>>]_vars
Isolated == [][\A i \in Inst, d \in DocIds : PLoad(i, d) => \A j \in Inst \ {i} : loaded'[j] = loaded[j]]_vars

Emit == IF hist = <<>>
        THEN PrintT(ToJson([docs |-> [d \in DocIds |-> [tokens |-> DocOf[d], out |-> Outcome(DocOf[d])]]]))
        ELSE (hist[Len(hist)].op # "process" \/ PrintT(ToJson([hist |-> hist])))
=============================================================================
