SPECIFICATION Spec
CONSTANTS
  MaxTokens = 3
  MaxDepth = 1
  NsNames <- NsSmall
  Kinds <- KindsAll
  Names <- NamesMulti
  Pays = {"p0", "p1"}
  WithSkips = FALSE
  WithTypes = TRUE
INVARIANT Laws
CONSTRAINT Emit
CHECK_DEADLOCK FALSE
