SPECIFICATION Spec
CONSTANTS
  Alphabet = {97, 32, 9, 31}
  MaxLen = 3
  MaxLines = 2
  Widths = {0, 1, 2, 3, 4, 5}
  Glyphs <- GlyphsAll
  Twice = FALSE
INVARIANT Law
CONSTRAINT Emit
CHECK_DEADLOCK FALSE
