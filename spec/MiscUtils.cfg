SPECIFICATION Spec
INVARIANT PluralLaw
CONSTRAINT Emit
CHECK_DEADLOCK FALSE
