------------------------- MODULE ParserLifecycleMC -------------------------
EXTENDS ParserLifecycle
D(kind, name, pay) == [t |-> "decl", kind |-> kind, name |-> name, pay |-> pay, types |-> <<>>]
MCDocOf ==
  [d \in {"D1", "D2", "Bad"} |->
     CASE d = "D1" -> << [t |-> "open", ids |-> <<"A">>],
                         [t |-> "decl", kind |-> "interface", name |-> <<"I">>, pay |-> "p1",
                          types |-> <<[kind |-> "enum", name |-> <<"E">>, pay |-> "p0"]>>],
                         D("component", <<"C">>, "p1"), [t |-> "close"], D("extern", <<"X">>, "p0") >>
       [] d = "D2" -> << D("interface", <<"I">>, "p0"), [t |-> "open", ids |-> <<"A">>], D("enum", <<"E">>, "p1"),
                         [t |-> "close"], D("import", <<"M">>, "p0") >>
       \* the refused element sits inside nested namespaces, after a good declaration: a parse that gives up there
       \* must leave nothing behind in the instance
       [] d = "Bad" -> << D("extern", <<"X">>, "p1"), [t |-> "open", ids |-> <<"Z">>], [t |-> "open", ids |-> <<"Y", "W">>],
                          D("enum", <<"E">>, "p0"), [t |-> "broken", how |-> "interface"], [t |-> "close"], [t |-> "close"] >> ]
\* how = "interface": the refused element is an interface whose local types are fine and whose last event is refused, so the
\* parser gives up after it has already seen declarations of that element
=============================================================================
