---------------------------- MODULE IndentCases ----------------------------
(***************************************************************************)
(* Every (indenter configuration, line sequence) of a bounded universe is  *)
(* one initial state; IndentLaw (property C18) is an invariant of the      *)
(* model and each state is printed as a case for replay through the real   *)
(* Indentizer.to_list / to_str and TextBlock.indent (with a header).       *)
(***************************************************************************)
EXTENDS Indent, TLC, Json

CONSTANTS Alphabet, MaxLen, MaxLines, Widths, Glyphs, Twice

GlyphsAll == {<<45>>, <<47, 47>>, <<62, 62, 62, 62>>, <<42>>}
GlyphsTwo == {<<45>>, <<62, 62, 62, 62>>}

StrsUpTo(n) == UNION {[1..m -> Alphabet] : m \in 0..n}
LineSeqs    == UNION {[1..m -> StrsUpTo(MaxLen)] : m \in 0..MaxLines}
CfgSet == {[tab |-> FALSE, n |-> w, mode |-> "none", glyph |-> <<>>] : w \in Widths}
          \cup {[tab |-> TRUE, n |-> 4, mode |-> "none", glyph |-> <<>>]}
          \cup {[tab |-> FALSE, n |-> w, mode |-> m, glyph |-> g] : w \in Widths, m \in {"all", "first"}, g \in Glyphs}
          \cup {[tab |-> TRUE, n |-> 2, mode |-> m, glyph |-> g] : m \in {"all", "first"}, g \in Glyphs}

VARIABLES cfg, cfg2, ls
vars == <<cfg, cfg2, ls>>
Init == cfg \in CfgSet /\ ls \in LineSeqs /\ cfg2 \in (IF Twice THEN CfgSet ELSE {cfg})
Next == FALSE
Spec == Init /\ [][Next]_vars

Law == IndentLaw(cfg, ls)
\* repeated indentation: the law holds again for the already indented text
LawTwice == Twice => IndentLaw(cfg2, ToList(cfg, ls))

Emit == PrintT(ToJson([cfg |-> cfg, ls |-> ls, out |-> ToList(cfg, ls), str |-> ToStr(cfg, ls),
                       twice |-> Twice, cfg2 |-> cfg2,
                       out2 |-> IF Twice THEN ToList(cfg2, ToList(cfg, ls)) ELSE <<>>]))
=============================================================================
