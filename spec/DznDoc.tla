------------------------------ MODULE DznDoc ------------------------------
(***************************************************************************)
(* Abstract Dezyne documents and what json_ast.DznJsonAst.process() makes  *)
(* of them (property C05).  A document is a sequence of tokens:            *)
(*   [t |-> "open", ids |-> <<id..>>]      namespace (1..n identifiers)    *)
(*   [t |-> "close"]                                                        *)
(*   [t |-> "decl", kind |-> K, name |-> <<id..>>, pay |-> P,               *)
(*                  types |-> <<[kind, name, pay]..>>]  (types: interfaces) *)
(*   [t |-> "skip", why |-> "unknown-class" | "non-dict"]                   *)
(*   [t |-> "broken"]                       an element the parser refuses   *)
(* Payloads P (ports, events, formals, fields, ranges, data values,        *)
(* instances, bindings) are opaque here: the model says where each one     *)
(* must end up; the harness checks with an unparser that what ended up     *)
(* there is the payload that was written.                                  *)
(***************************************************************************)
EXTENDS Naturals, Sequences, FiniteSets

RECURSIVE Flat(_)
Flat(stack) == IF stack = <<>> THEN <<>> ELSE Head(stack) \o Flat(Tail(stack))

Containers == {"components", "enums", "externs", "filenames", "foreigns", "imports",
               "interfaces", "subints", "systems"}
ContainerOf(kind) == CASE kind = "component" -> "components" [] kind = "enum" -> "enums"
                       [] kind = "extern" -> "externs" [] kind = "file-name" -> "filenames"
                       [] kind = "foreign" -> "foreigns" [] kind = "import" -> "imports"
                       [] kind = "interface" -> "interfaces" [] kind = "subint" -> "subints"
                       [] kind = "system" -> "systems"

Empty == [c \in Containers |-> <<>>]

Entry(scope, d) == [fqn |-> scope \o d.name, scope |-> scope, name |-> d.name, pay |-> d.pay]
NestedKinds == {"enum", "subint", "extern"}      \* Dezyne: type ::= enum | int | extern, at namespace and at interface level
\* the local types of an interface live in the scope formed by the interface's own fqn
RECURSIVE NestedEntries(_, _)
NestedEntries(scope, types) ==
  IF types = <<>> THEN <<>>
  ELSE LET ty == Head(types) rest == NestedEntries(scope, Tail(types)) IN
       IF ty.kind \in NestedKinds
       THEN <<[fqn |-> scope \o ty.name, scope |-> scope, name |-> ty.name, pay |-> ty.pay, kind |-> ty.kind]>> \o rest
       ELSE rest                                               \* unknown type class: skipped
StripKind(e) == [fqn |-> e.fqn, scope |-> e.scope, name |-> e.name, pay |-> e.pay]
OfKind(es, k) == LET sel == SelectSeq(es, LAMBDA e : e.kind = k) IN [i \in 1..Len(sel) |-> StripKind(sel[i])]

\* one parsing step: st = [stack, fc]
Step(st, tok) ==
  CASE tok.t = "open"  -> [st EXCEPT !.stack = Append(@, tok.ids)]
    [] tok.t = "close" -> [st EXCEPT !.stack = SubSeq(@, 1, Len(@) - 1)]
    [] tok.t = "decl"  ->
         LET scope == Flat(st.stack) IN
         IF tok.kind \in {"import", "file-name"}
         THEN [st EXCEPT !.fc[ContainerOf(tok.kind)] = Append(@, [name |-> tok.name])]
         ELSE IF tok.kind = "interface"
         THEN LET nested == NestedEntries(scope \o tok.name, tok.types) IN
              [st EXCEPT !.fc.interfaces = Append(@, [fqn |-> scope \o tok.name, scope |-> scope, name |-> tok.name,
                                                        pay |-> tok.pay, types |-> nested]),
                         !.fc.enums   = @ \o OfKind(nested, "enum"),          \* hoisted, encounter order
                         !.fc.subints = @ \o OfKind(nested, "subint"),
                         !.fc.externs = @ \o OfKind(nested, "extern")]
         ELSE [st EXCEPT !.fc[ContainerOf(tok.kind)] = Append(@, Entry(scope, tok))]
    [] OTHER -> st                                              \* skip / broken change nothing

RECURSIVE Fold(_, _)
Fold(st, doc) == IF doc = <<>> THEN st ELSE Fold(Step(st, Head(doc)), Tail(doc))

IsBroken(doc) == \E i \in 1..Len(doc) : doc[i].t = "broken"
Parse(doc) == Fold([stack |-> <<>>, fc |-> Empty], doc).fc
\* outcome of process(): the parsed containers, or the parser's documented error
Outcome(doc) == IF IsBroken(doc) THEN [ok |-> FALSE, fc |-> Empty] ELSE [ok |-> TRUE, fc |-> Parse(doc)]

Depth(doc) == Len(Fold([stack |-> <<>>, fc |-> Empty], doc).stack)
Balanced(doc) == Depth(doc) = 0

(***************************************************************************)
(* Property C05 on the model.                                               *)
(***************************************************************************)
NumDecls(doc, k) == Cardinality({i \in 1..Len(doc) : doc[i].t = "decl" /\ doc[i].kind = k})
NumNested(doc, k) == LET F[i \in 0..Len(doc)] ==
                           IF i = 0 THEN 0
                           ELSE F[i - 1] + (IF doc[i].t = "decl" /\ doc[i].kind = "interface"
                                            THEN Len(SelectSeq(doc[i].types, LAMBDA ty : ty.kind = k)) ELSE 0)
                     IN F[Len(doc)]
\* exactly one entry per declaration (nested types included), nothing invented, merged or dropped
OneEntryPerDecl(doc) ==
  LET fc == Parse(doc) IN
  \A k \in {"component", "system", "foreign", "interface", "enum", "subint", "extern", "import", "file-name"} :
     Len(fc[ContainerOf(k)]) = NumDecls(doc, k) + (IF k \in NestedKinds THEN NumNested(doc, k) ELSE 0)
\* skipped elements do not affect their siblings
SkipsAreInert(doc) ==
  Parse(doc) = Parse(SelectSeq(doc, LAMBDA tok : tok.t # "skip"))
\* every fqn is the concatenation of the enclosing namespace names and the declared name
FqnLaw(doc) ==
  LET fc == Parse(doc) IN
  \A c \in Containers \ {"imports", "filenames"} : \A i \in 1..Len(fc[c]) :
     fc[c][i].fqn = fc[c][i].scope \o fc[c][i].name
=============================================================================
