SPECIFICATION Spec
CONSTANT MaxLen = 2
CONSTRAINT Emit
CHECK_DEADLOCK FALSE
