SPECIFICATION Spec
CONSTANT Mode = "formal-type"
INVARIANT C07Law
INVARIANT C13Law
CONSTRAINT Emit
CHECK_DEADLOCK FALSE
