------------------------- MODULE ShellRuntimeTrace -------------------------
(***************************************************************************)
(* Trace validation of executions of the real compiled shell (driver       *)
(* commands and what the driver observed) against ShellRuntime.tla.        *)
(* One trace = one process: [id, cx, events |-> <<[cmd, obs]..>>].         *)
(***************************************************************************)
EXTENDS ShellRuntime, TLC, TLCExt, Json, IOUtils

Traces  == ndJsonDeserialize(IOEnv.TRACE_FILE)
Explain == "EXPLAIN" \in DOMAIN IOEnv /\ IOEnv.EXPLAIN = "1"
VARIABLES t, l, st
vars == <<t, l, st>>
Ev == Traces[t].events
Cx == Traces[t].cx
AsSet(s) == {s[i] : i \in DOMAIN s}

ObsEq(m, o) == /\ m.res = o.res
               /\ m.queue = o.queue
               /\ m.blocked = AsSet(o.blocked)
               /\ m.log = o.log
               /\ m.done = AsSet(o.done)

TInit == t \in DOMAIN Traces /\ l = 1 /\ st = Init0
TNext == /\ l <= Len(Ev) /\ l' = l + 1 /\ t' = t
         /\ LET a == Apply(Cx, st, Ev[l].cmd) IN
            /\ st' = a.st
            \* strict reading of C04, evaluated on the real execution: report where delivery differs from the holder
            /\ (Ev[l].cmd.c = "comp" /\ R(Cx, Ev[l].cmd.port, Ev[l].cmd.event).mech = "select" /\ ~SelectionFaithful(st))
                  => PrintT(<<"STRICT-C04", Traces[t].id, l, st.sel, st.holder>>)
            /\ IF Explain THEN (l < Len(Ev) \/ PrintT(<<"EXPECT", ToJson(a.obs)>>))
               ELSE ObsEq(a.obs, Ev[l].obs)
TSpec == TInit /\ [][TNext]_vars

\* the routing table itself must satisfy C01/C02's structural laws ...
ASSUME \A i \in DOMAIN Traces : RoutedOnce(Traces[i].cx) /\ MechLaw(Traces[i].cx)
\* ... and must be the one ShellStructure.tla derives from the model and the configuration of the program
SS == INSTANCE ShellStructure
AsSetS(s) == {s[i] : i \in DOMAIN s}
SelS(x) == [w |-> x.w, s |-> AsSetS(x.s)]
CfgS(c) == [c EXCEPT !.prov = [sts |-> SelS(c.prov.sts), mts |-> SelS(c.prov.mts)],
                      !.req = [sts |-> SelS(c.req.sts), mts |-> SelS(c.req.mts)]]
RouteAgrees(i) == SS!RouteOf(Traces[i].decls, CfgS(Traces[i].cfg)) = Traces[i].cx.route
ASSUME \A i \in DOMAIN Traces : RouteAgrees(i) \/ PrintT(<<"ROUTE-DIFFERS", Traces[i].id>>)
ASSUME \A i \in DOMAIN Traces : TLCSet(i, 0)
Progress == TLCSet(t, IF TLCGet(t) < l - 1 THEN l - 1 ELSE TLCGet(t))
Rejected == {i \in DOMAIN Traces : TLCGet(i) < Len(Traces[i].events)}
Accepted == \A i \in Rejected : PrintT(<<"REJECTED", Traces[i].id, TLCGet(i) + 1>>)
=============================================================================
