----------------------------- MODULE ShellTrace -----------------------------
(***************************************************************************)
(* Validates recorded Builder.build outcomes on arbitrary generated models *)
(* and configurations against ShellStructure.tla (C13, C07, C03).          *)
(* Event: [decls, cfg, obs |-> [ok, stage, family]]                        *)
(*   family: "library" (one of dznpy's error types raised by dznpy),       *)
(*           "worded" (ValueError/TypeError raised deliberately by dznpy), *)
(*           "internal" (anything else), "" on success                     *)
(***************************************************************************)
EXTENDS ShellStructure, TLC, TLCExt, Json, IOUtils

Traces  == ndJsonDeserialize(IOEnv.TRACE_FILE)
Explain == "EXPLAIN" \in DOMAIN IOEnv /\ IOEnv.EXPLAIN = "1"
VARIABLES t, l
vars == <<t, l>>
Ev == Traces[t].events
AsSet(s) == {s[i] : i \in DOMAIN s}
Sel(x) == [w |-> x.w, s |-> AsSet(x.s)]
PSC(x) == [sts |-> Sel(x.sts), mts |-> Sel(x.mts)]
CfgOf(c) == [c EXCEPT !.prov = PSC(c.prov), !.req = PSC(c.req)]

Model(e) == LET cfg == CfgOf(e.cfg) IN
            IF ConfigRejected(cfg) THEN [ok |-> FALSE, stage |-> "config"]
            ELSE [ok |-> BuildOutcome(e.decls, cfg).ok, stage |-> "build"]
Explained(e) ==
  /\ e.obs.family # "internal"                                       \* never an internal error
  /\ e.obs.ok = Model(e).ok                                          \* valid inputs succeed, invalid ones fail
  /\ (e.obs.ok => e.obs.files = 8)                                   \* never a partial file set
  \* the wiring statements scanned from the generated source are exactly those the model prescribes
  /\ (e.scan /\ e.obs.ok => AsSet(e.wiring) = WiringOf(e.decls, CfgOf(e.cfg)))

TInit == t \in DOMAIN Traces /\ l = 1
TNext == /\ l <= Len(Ev) /\ l' = l + 1 /\ t' = t
         /\ IF Explain THEN (l < Len(Ev) \/ PrintT(<<"EXPECT", ToJson(
                 [ok |-> Model(Ev[l]).ok, stage |-> Model(Ev[l]).stage,
                  wiring |-> IF Ev[l].scan /\ Model(Ev[l]).ok THEN WiringOf(Ev[l].decls, CfgOf(Ev[l].cfg)) ELSE {},
                  kind |-> IF ConfigRejected(CfgOf(Ev[l].cfg)) THEN "config" ELSE BuildOutcome(Ev[l].decls, CfgOf(Ev[l].cfg)).kind])>>))
            ELSE Explained(Ev[l])
TSpec == TInit /\ [][TNext]_vars
ASSUME \A i \in DOMAIN Traces : TLCSet(i, 0)
Progress == TLCSet(t, IF TLCGet(t) < l - 1 THEN l - 1 ELSE TLCGet(t))
Rejected == {i \in DOMAIN Traces : TLCGet(i) < Len(Traces[i].events)}
Accepted == \A i \in Rejected : PrintT(<<"REJECTED", Traces[i].id, TLCGet(i) + 1>>)
=============================================================================
