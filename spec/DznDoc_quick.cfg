SPECIFICATION Spec
CONSTANTS
  MaxTokens = 4
  MaxDepth = 2
  NsNames <- NsSmall
  Kinds <- KindsSmall
  Names <- NamesTwo
  Pays = {"p0"}
  WithSkips = TRUE
  WithTypes = TRUE
INVARIANT Laws
CONSTRAINT Emit
CHECK_DEADLOCK FALSE
