---------------------------- MODULE IncludeGraph ----------------------------
(***************************************************************************)
(* The files returned by a build as an include graph (property C06).       *)
(* Facts (extracted by the harness from the returned text, read from the   *)
(* JSON file named by FACTS_FILE):                                         *)
(*   headers : name -> [quoted, system, guarded, needs]                    *)
(*     quoted  - files it #includes with quotes, in textual order          *)
(*     system  - headers it #includes with <>                              *)
(*     guarded - has an include guard / #pragma once                       *)
(*     needs   - standard headers whose names its own text uses            *)
(*   provides: system header -> set of standard headers it brings along    *)
(*   returned: the files of the build result; external: quoted includes    *)
(*             that are allowed to be missing (the Dezyne-generated header)*)
(* A scenario is a translation unit: a sequence of files to #include.      *)
(* The model predicts whether a compiler accepts it; the harness gives the *)
(* same translation unit to g++ and the compiler has the last word.        *)
(***************************************************************************)
EXTENDS Naturals, Sequences, FiniteSets, TLC, Json, IOUtils

CONSTANT MaxLen
Facts == JsonDeserialize(IOEnv.FACTS_FILE)
Names == DOMAIN Facts.headers
H(n) == Facts.headers[n]
AsSet(s) == {s[i] : i \in DOMAIN s}

\* textual expansion of #include "n": depth first, a guarded file only the first time
RECURSIVE Expand(_, _, _)
Expand(todo, seen, fuel) ==           \* todo: sequence of names still to include; returns the sequence of file instances
  IF todo = <<>> \/ fuel = 0 THEN <<>>
  ELSE LET n == Head(todo) IN
       IF n \notin Names THEN Expand(Tail(todo), seen, fuel - 1)                     \* external header (mocked, guarded)
       ELSE IF H(n).guarded /\ n \in seen THEN Expand(Tail(todo), seen, fuel - 1)
       ELSE LET inner == Expand(H(n).quoted, seen \cup {n}, fuel - 1)
                seen2 == seen \cup {n} \cup AsSet(inner)
            IN inner \o <<n>> \o Expand(Tail(todo), seen2, fuel - 1)

Instances(seq) == Expand(seq, {}, 60)
Twice(seq) == {n \in Names : Cardinality({i \in DOMAIN Instances(seq) : Instances(seq)[i] = n}) > 1}
\* ODR inside one translation unit: an unguarded file must not be expanded twice
Redefinition(seq) == Twice(seq) # {}

StdOf(sysname) == IF sysname \in DOMAIN Facts.provides THEN AsSet(Facts.provides[sysname]) \cup {sysname} ELSE {sysname}
RECURSIVE Closure(_, _)
Closure(n, fuel) ==                    \* standard headers available once file n has been fully included
  IF n \notin Names \/ fuel = 0 THEN AsSet(Facts.external_provides)
  ELSE UNION {StdOf(s) : s \in AsSet(H(n).system)} \cup UNION {Closure(q, fuel - 1) : q \in AsSet(H(n).quoted)}
\* each header must bring along what its own text needs (so that it compiles on its own, whatever came before)
SelfContained(n) == AsSet(H(n).needs) \subseteq Closure(n, 8)
NotSelfContained(seq) == {n \in AsSet(seq) \cap Names : ~SelfContained(n)}

\* every quoted include names another returned file or the Dezyne-generated header of the source model
Closed == \A n \in Names : \A q \in AsSet(H(n).quoted) : q \in AsSet(Facts.returned) \/ q \in AsSet(Facts.external)

Predict(seq) == IF Redefinition(seq) THEN [accept |-> FALSE, why |-> "redefinition", files |-> Twice(seq)]
                ELSE IF NotSelfContained(<<Head(seq)>>) # {} THEN [accept |-> FALSE, why |-> "not-self-contained", files |-> NotSelfContained(<<Head(seq)>>)]
                ELSE [accept |-> TRUE, why |-> "", files |-> {}]

VARIABLE seq
Headers == {n \in Names : H(n).is_header}
Init == seq \in UNION {[1..m -> Headers] : m \in 1..MaxLen} \cup {<<n>> : n \in Names \ Headers}
Next == FALSE
Spec == Init /\ [][Next]_<<seq>>
ClosedInv == Closed
Emit == PrintT(ToJson([seq |-> seq, predict |-> Predict(seq), closed |-> Closed]))
=============================================================================
