--------------------------- MODULE ScopingCases ---------------------------
(***************************************************************************)
(* Case enumeration for C14.  Mode "lookup": every searched name, calling  *)
(* scope and subset of the relevant declarations (the chain candidates and *)
(* distractors: a sibling namespace, the name as a proper prefix, the bare *)
(* last identifier in an unrelated namespace, imports/file names with the  *)
(* same name).  Mode "notation": every string up to MaxStr over Chars as   *)
(* an identifier-list candidate.  Mode "idlist": lists of such strings.    *)
(***************************************************************************)
EXTENDS Scoping, TLC, Json

CONSTANTS Ids, MaxName, MaxScope, Mode, Chars, MaxStr

SeqsFromTo(S, lo, hi) == UNION {[1..m -> S] : m \in lo..hi}

Names  == SeqsFromTo(Ids, 1, MaxName)
Scopes == SeqsFromTo(Ids, 0, MaxScope)

Kinds == <<"component", "enum", "extern", "foreign", "interface", "subint", "system">>
KindOf(i) == Kinds[((i - 1) % 7) + 1]

OtherId(scope, name) == CHOOSE x \in Ids : TRUE       \* some identifier (may coincide: then it is no distractor)

\* candidate fully qualified names, as a sequence so that each gets a position (and thereby a kind)
Candidates(name, scope) ==
  LET ro == ResolutionOrder(name, scope)
      x  == "z"
      \* a sibling top-level namespace whose identifier is a textual prefix / extension of the scope's outermost one
      sib == IF scope = <<>> THEN "z" ELSE IF scope[1] = "ab" THEN "a" ELSE IF scope[1] = "a" THEN "ab" ELSE "z"
  IN  ro \o << <<sib>> \o name,                        \* same name in a sibling/unrelated namespace
              scope \o name \o <<x>>,                   \* the name as a proper prefix
              <<x>> \o scope \o name,                   \* chain candidate shifted into another namespace
              IF Len(name) > 1 THEN Tail(name) ELSE scope \o <<x>> \o name >>   \* a declaration that is a proper tail of the
                                                                                  \* searched name / deeper than the calling scope

VARIABLES name, scope, sel, rot, str, lst
vars == <<name, scope, sel, rot, str, lst>>

\* rot = 2: the selected candidates are enums / subints / externs declared as LOCAL TYPES of an interface whose fully
\* qualified name is the candidate's front (the parser hoists them into the same containers as namespace-level ones)
LocalKinds == <<"enum", "subint", "extern">>
Front(s) == SubSeq(s, 1, Len(s) - 1)
Decls == LET c == Candidates(name, scope) IN
         (IF rot = 2
          THEN {[fqn |-> c[i], kind |-> LocalKinds[(i % 3) + 1]] : i \in sel}
               \cup {[fqn |-> Front(c[i]), kind |-> "interface"] : i \in {j \in sel : Len(c[j]) > 1}}
          ELSE {[fqn |-> c[i], kind |-> KindOf(i + rot)] : i \in sel})
         \cup (IF rot % 2 = 1 THEN {[fqn |-> name, kind |-> "import"], [fqn |-> scope \o name, kind |-> "file-name"]} ELSE {})

Strs == SeqsFromTo(Chars, 0, MaxStr)

Init == IF Mode = "lookup"
        THEN /\ name \in Names /\ scope \in Scopes
             /\ sel \in SUBSET (1..(Len(scope) + 5)) /\ rot \in 0..2
             /\ str = <<>> /\ lst = <<>>
        ELSE IF Mode = "notation"
        THEN /\ str \in Strs /\ lst = <<>> /\ name = <<>> /\ scope = <<>> /\ sel = {} /\ rot = 0
        ELSE /\ lst \in SeqsFromTo(SeqsFromTo(Chars, 0, 2), 0, 3) /\ str = <<>>
             /\ name = <<>> /\ scope = <<>> /\ sel = {} /\ rot = 0
Next == FALSE
Spec == Init /\ [][Next]_vars

Lookup   == Mode = "lookup" => LookupLaw(Decls, name, scope)
Notation == Mode = "notation" => HandedOutLaw(str)
ListLaw  == Mode = "idlist" => NotationLaw(lst)

Emit == PrintT(ToJson(
  IF Mode = "lookup"
  THEN [mode |-> Mode, name |-> name, scope |-> scope, decls |-> Decls,
        order |-> ResolutionOrder(name, scope), found |-> FindFqn(Decls, name, scope),
        any |-> FindAny(Decls, name)]
  ELSE IF Mode = "notation" THEN [mode |-> Mode, str |-> str, r |-> NsIdsOfString(str)]
  ELSE [mode |-> Mode, lst |-> lst, r |-> NsIdsOfList(lst), dotted |-> Dotted(lst), coloned |-> Coloned(lst)]))
=============================================================================
