------------------------------- MODULE Text -------------------------------
(***************************************************************************)
(* Base vocabulary of the text layer of dznpy (misc_utils.py, text_gen.py). *)
(* A character is its Unicode code point, a string is a sequence of them,  *)
(* so that traces recorded from the implementation need no translation.    *)
(*                                                                         *)
(* Content values (what a TextBlock accepts) are tagged records:           *)
(*   [k |-> "none"]                       None                             *)
(*   [k |-> "str",  s |-> string]         a str                            *)
(*   [k |-> "num",  s |-> string]         a number, s = its str() form     *)
(*   [k |-> "list", items |-> <<v..>>]    a list                           *)
(*   [k |-> "dict", items |-> <<v..>>]    a dict (values, insertion order) *)
(*   [k |-> "block", h |-> lines, ls |-> lines]   another TextBlock        *)
(***************************************************************************)
EXTENDS Naturals, Sequences, FiniteSets

LF == 10
CR == 13
TABC == 9
SP == 32

\* characters at which str.splitlines() breaks a line
Breaks == {10, 11, 12, 13, 28, 29, 30, 133, 8232, 8233}
\* characters str.strip() removes (Py_UNICODE_ISSPACE)
Blank  == Breaks \cup {9, 31, 32, 160, 5760, 8239, 8287, 12288} \cup (8192..8202)

Max(a, b) == IF a >= b THEN a ELSE b

RECURSIVE Concat(_)
Concat(ss) == IF ss = <<>> THEN <<>> ELSE Head(ss) \o Concat(Tail(ss))

\* str.splitlines(): break after every Breaks character, CR LF counts once, no empty tail piece
RECURSIVE SplitFrom(_, _, _)
SplitFrom(s, i, cur) ==
  IF i > Len(s) THEN (IF cur = <<>> THEN <<>> ELSE <<cur>>)
  ELSE IF s[i] \in Breaks
       THEN LET j == IF s[i] = CR /\ i < Len(s) /\ s[i + 1] = LF THEN i + 2 ELSE i + 1
            IN  <<cur>> \o SplitFrom(s, j, <<>>)
       ELSE SplitFrom(s, i + 1, Append(cur, s[i]))
SplitLines(s) == SplitFrom(s, 1, <<>>)

HasBreak(s)   == \E i \in 1..Len(s) : s[i] \in Breaks
IsBlankStr(s) == \A i \in 1..Len(s) : s[i] \in Blank          \* s.strip() == ''

RECURSIVE LStrip(_)
LStrip(s) == IF s # <<>> /\ Head(s) \in Blank THEN LStrip(Tail(s)) ELSE s
RECURSIVE RStrip(_)
RStrip(s) == IF s # <<>> /\ s[Len(s)] \in Blank THEN RStrip(SubSeq(s, 1, Len(s) - 1)) ELSE s
Strip(s) == LStrip(RStrip(s))

\* every line followed by exactly one LF (TextBlock.__str__ of a non-empty block)
JoinLF(ls) == Concat([i \in 1..Len(ls) |-> ls[i] \o <<LF>>])
\* EOL.join(ls)
JoinSep(ls) == IF ls = <<>> THEN <<>> ELSE
               Concat([i \in 1..Len(ls) |-> IF i < Len(ls) THEN ls[i] \o <<LF>> ELSE ls[i]])

StrOfBlock(h, ls) == IF h \o ls = <<>> THEN <<>> ELSE JoinLF(h \o ls)

\* Python truthiness of a content value
Truthy(v) == CASE v.k = "none" -> FALSE
               [] v.k = "str" -> v.s # <<>>
               [] v.k = "num" -> v.s # <<48>>
               [] v.k \in {"list", "dict"} -> v.items # <<>>
               [] v.k = "block" -> TRUE

\* misc_utils.flatten_to_strlist(value, skip_empty_strings = skip)
RECURSIVE Flatten(_, _)
Flatten(v, skip) ==
  CASE v.k = "none" -> <<>>
    [] v.k = "str"  -> IF skip /\ v.s = <<>> THEN <<>> ELSE <<v.s>>
    [] v.k = "num"  -> <<v.s>>
    [] v.k \in {"list", "dict"} -> Concat([i \in 1..Len(v.items) |-> Flatten(v.items[i], skip)])
    [] v.k = "block" -> LET st == StrOfBlock(v.h, v.ls) IN IF st = <<>> THEN <<>> ELSE <<st>>

\* the lines TextBlock.append(v) adds to the buffer
PieceLines(s)  == IF s = <<>> THEN << <<>> >> ELSE SplitLines(s)
AppendLines(v) == IF v.k = "block" THEN v.ls
                  ELSE LET fl == Flatten(v, FALSE)
                       IN  Concat([i \in 1..Len(fl) |-> PieceLines(fl[i])])

\* misc_utils.trim_list on a list of strings: only empty strings are trimmable
RECURSIVE TrimFront(_)
TrimFront(ls) == IF ls # <<>> /\ Head(ls) = <<>> THEN TrimFront(Tail(ls)) ELSE ls
RECURSIVE TrimBack(_)
TrimBack(ls) == IF ls # <<>> /\ ls[Len(ls)] = <<>> THEN TrimBack(SubSeq(ls, 1, Len(ls) - 1)) ELSE ls
TrimLines(ls, endOnly) == TrimBack(IF endOnly THEN ls ELSE TrimFront(ls))

StrV(s)   == [k |-> "str", s |-> s]
ListV(xs) == [k |-> "list", items |-> xs]
NoneV     == [k |-> "none"]
StrListV(ss) == ListV([i \in 1..Len(ss) |-> StrV(ss[i])])

\* text_gen.chunk(content, appendix): "none" stands for a None result
ChunkLines(content, appendix) ==
  IF Flatten(content, TRUE) = <<>> THEN [some |-> FALSE, ls |-> <<>>]
  ELSE [some |-> TRUE, ls |-> AppendLines(ListV(<<content, StrListV(Flatten(appendix, TRUE))>>))]

\* text_gen.cond_chunk(preamble, content, empty_response, appendix, all_or_nothing)
CondChunkLines(pre, content, empty, appendix, aon) ==
  LET tp == StrListV(Flatten(pre, TRUE))
      tc == Flatten(content, TRUE)
      te == StrListV(Flatten(empty, TRUE))
  IN  IF aon /\ tc = <<>>
      THEN (IF Truthy(empty) THEN [some |-> TRUE, ls |-> AppendLines(empty)]
                             ELSE [some |-> FALSE, ls |-> <<>>])
      ELSE IF tc # <<>> THEN ChunkLines(ListV(<<tp, content>>), appendix)
                        ELSE ChunkLines(ListV(<<tp, te>>), appendix)
=============================================================================
