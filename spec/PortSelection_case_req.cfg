SPECIFICATION Spec
CONSTANTS
  PNames = {"a"}
  RNames = {"x", "X", "y"}
  Side = "requires"
INVARIANT Law
CONSTRAINT Emit
CHECK_DEADLOCK FALSE
