------------------------ MODULE PortSelectionCases ------------------------
EXTENDS PortSelection

CONSTANTS PNames, RNames, Side       \* Side: "provides" | "requires" | "both" | "presets"
Unknown == "zz"

VARIABLES prov, req, P, R, Inj, mc,       \* mc: the provides port configured as multi-client, or ""
          preset                          \* name of the convenience function of dznpy.adv_shell the configuration is made with, or ""
vars == <<prov, req, P, R, Inj, mc, preset>>

PSCs(Names) == [sts : Selections(Names), mts : Selections(Names)]
Fixed == [sts |-> Wild("ALL"), mts |-> Wild("NONE")]

\* the predefined configurations of dznpy.adv_shell: what each helper promises in its name and docstring
AllStsC == [sts |-> Wild("ALL"), mts |-> Wild("NONE")]
AllMtsC == [sts |-> Wild("NONE"), mts |-> Wild("ALL")]
FixedPresets == {"all_mts", "all_sts", "all_sts_all_mts", "all_mts_all_sts"}
MixedPresets == {"all_mts_mixed_ts", "all_sts_mixed_ts"}
WithMc       == {"all_mts", "all_mts_all_sts", "all_mts_mixed_ts"}
PresetProv(n) == IF n \in {"all_mts", "all_mts_all_sts", "all_mts_mixed_ts"} THEN AllMtsC ELSE AllStsC
PresetReq(n)  == IF n \in {"all_mts", "all_sts_all_mts"} THEN AllMtsC ELSE AllStsC

Init ==
  CASE Side = "presets" -> /\ preset \in FixedPresets \cup MixedPresets
                           /\ P \in SUBSET PNames /\ prov = PresetProv(preset)
                           /\ \E RI \in SUBSET RNames : \E I \in SUBSET RI : R = RI \ I /\ Inj = I
                           /\ req \in (IF preset \in MixedPresets THEN PSCs(RNames \cup {Unknown}) ELSE {PresetReq(preset)})
                           /\ mc \in (IF preset \in WithMc THEN {"", "a"} ELSE {""})
    [] Side = "provides" -> /\ P \in SUBSET PNames /\ prov \in PSCs(PNames \cup {Unknown, "r"}) /\ mc \in {"", "a"}
                            /\ R \in {{}, {"r"}} /\ Inj = {} /\ req \in {Fixed, [sts |-> Wild("NONE"), mts |-> Wild("ALL")]}
                            /\ preset = ""
    [] Side = "requires" -> /\ \E RI \in SUBSET RNames : \E I \in SUBSET RI : R = RI \ I /\ Inj = I
                            /\ req \in PSCs(RNames \cup {Unknown, "p"})
                            /\ P \in {{}, {"p"}} /\ prov = Fixed /\ mc = "" /\ preset = ""
    [] Side = "both"     -> /\ P \in SUBSET PNames /\ prov \in PSCs(PNames \cup {Unknown})
                            /\ \E RI \in SUBSET RNames : \E I \in SUBSET RI : R = RI \ I /\ Inj = I
                            /\ req \in PSCs(RNames \cup {Unknown}) /\ mc = "" /\ preset = ""
Next == FALSE
Spec == Init /\ [][Next]_vars

Law == C03Law(prov, req, P, R, Inj)

\* a multi-client setting is only valid on an existing provides port that ends up MTS; C03 does not list these
\* rejections, so they are allowed either way - but an accepted configuration must still assign what C03 says
McRejected == mc # "" /\ Outcome(prov, req, P, R, Inj).k = "assign" /\ (mc \notin P \/ Assignment(prov, req, P, R)[mc] # "MTS")
VerdictMc == IF MustReject(prov, req, P, R, Inj) THEN "must-reject"
             ELSE IF McRejected THEN "either" ELSE Verdict(prov, req, P, R, Inj)
Emit == PrintT(ToJson([prov |-> prov, req |-> req, P |-> P, R |-> R, Inj |-> Inj, mc |-> mc, preset |-> preset,
                       outcome |-> Outcome(prov, req, P, R, Inj), verdict |-> VerdictMc,
                       f |-> Assignment(prov, req, P, R)]))
=============================================================================
