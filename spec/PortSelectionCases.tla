------------------------ MODULE PortSelectionCases ------------------------
EXTENDS PortSelection

CONSTANTS PNames, RNames, Side       \* Side: "provides" | "requires" | "both"
Unknown == "zz"

VARIABLES prov, req, P, R, Inj, mc        \* mc: the provides port configured as multi-client, or ""
vars == <<prov, req, P, R, Inj, mc>>

PSCs(Names) == [sts : Selections(Names), mts : Selections(Names)]
Fixed == [sts |-> Wild("ALL"), mts |-> Wild("NONE")]

Init ==
  CASE Side = "provides" -> /\ P \in SUBSET PNames /\ prov \in PSCs(PNames \cup {Unknown, "r"}) /\ mc \in {"", "a"}
                            /\ R \in {{}, {"r"}} /\ Inj = {} /\ req \in {Fixed, [sts |-> Wild("NONE"), mts |-> Wild("ALL")]}
    [] Side = "requires" -> /\ \E RI \in SUBSET RNames : \E I \in SUBSET RI : R = RI \ I /\ Inj = I
                            /\ req \in PSCs(RNames \cup {Unknown, "p"})
                            /\ P \in {{}, {"p"}} /\ prov = Fixed /\ mc = ""
    [] Side = "both"     -> /\ P \in SUBSET PNames /\ prov \in PSCs(PNames \cup {Unknown})
                            /\ \E RI \in SUBSET RNames : \E I \in SUBSET RI : R = RI \ I /\ Inj = I
                            /\ req \in PSCs(RNames \cup {Unknown}) /\ mc = ""
Next == FALSE
Spec == Init /\ [][Next]_vars

Law == C03Law(prov, req, P, R, Inj)

\* a multi-client setting is only valid on an existing provides port that ends up MTS; C03 does not list these
\* rejections, so they are allowed either way - but an accepted configuration must still assign what C03 says
McRejected == mc # "" /\ Outcome(prov, req, P, R, Inj).k = "assign" /\ (mc \notin P \/ Assignment(prov, req, P, R)[mc] # "MTS")
VerdictMc == IF MustReject(prov, req, P, R, Inj) THEN "must-reject"
             ELSE IF McRejected THEN "either" ELSE Verdict(prov, req, P, R, Inj)
Emit == PrintT(ToJson([prov |-> prov, req |-> req, P |-> P, R |-> R, Inj |-> Inj, mc |-> mc,
                       outcome |-> Outcome(prov, req, P, R, Inj), verdict |-> VerdictMc,
                       f |-> Assignment(prov, req, P, R)]))
=============================================================================
