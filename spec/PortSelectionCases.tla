------------------------ MODULE PortSelectionCases ------------------------
EXTENDS PortSelection

CONSTANTS PNames, RNames, Side       \* Side: "provides" | "requires" | "both"
Unknown == "zz"

VARIABLES prov, req, P, R, Inj
vars == <<prov, req, P, R, Inj>>

PSCs(Names) == [sts : Selections(Names), mts : Selections(Names)]
Fixed == [sts |-> Wild("ALL"), mts |-> Wild("NONE")]

Init ==
  CASE Side = "provides" -> /\ P \in SUBSET PNames /\ prov \in PSCs(PNames \cup {Unknown, "r"})
                            /\ R \in {{}, {"r"}} /\ Inj = {} /\ req \in {Fixed, [sts |-> Wild("NONE"), mts |-> Wild("ALL")]}
    [] Side = "requires" -> /\ \E RI \in SUBSET RNames : \E I \in SUBSET RI : R = RI \ I /\ Inj = I
                            /\ req \in PSCs(RNames \cup {Unknown, "p"})
                            /\ P \in {{}, {"p"}} /\ prov = Fixed
    [] Side = "both"     -> /\ P \in SUBSET PNames /\ prov \in PSCs(PNames \cup {Unknown})
                            /\ \E RI \in SUBSET RNames : \E I \in SUBSET RI : R = RI \ I /\ Inj = I
                            /\ req \in PSCs(RNames \cup {Unknown})
Next == FALSE
Spec == Init /\ [][Next]_vars

Law == C03Law(prov, req, P, R, Inj)

Emit == PrintT(ToJson([prov |-> prov, req |-> req, P |-> P, R |-> R, Inj |-> Inj,
                       outcome |-> Outcome(prov, req, P, R, Inj), verdict |-> Verdict(prov, req, P, R, Inj),
                       f |-> Assignment(prov, req, P, R)]))
=============================================================================
