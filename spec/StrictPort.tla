----------------------------- MODULE StrictPort -----------------------------
(***************************************************************************)
(* <prefix>_StrictPort.hh: the enclosures Sts<P> / Mts<P> and ConnectPorts. *)
(* A strict port value is [ns, sem, itf]: the copy of the support file it   *)
(* comes from (namespace prefix), its runtime semantics and the interface   *)
(* of the enclosed port.  ConnectPorts of copy `via` ties a provided to a   *)
(* required strict port by calling Dezyne's connect(provided, required).    *)
(***************************************************************************)
EXTENDS Naturals, Sequences, FiniteSets

\* the overloads shipped in copy `via`:  ConnectPorts(Sts<P>, Sts<P>) and ConnectPorts(Mts<P>, Mts<P>) of that namespace
Overloads(via) == {[a |-> [ns |-> via, sem |-> s], b |-> [ns |-> via, sem |-> s]] : s \in {"STS", "MTS"}}

\* does a call of copy via's ConnectPorts with arguments a, b compile?  (one template parameter P: both interfaces equal)
Compiles(via, a, b) ==
  /\ a.itf = b.itf
  /\ \E o \in Overloads(via) : o.a.ns = a.ns /\ o.a.sem = a.sem /\ o.b.ns = b.ns /\ o.b.sem = b.sem

\* what property C02 needs from the strict types, whatever overloads a copy offers:
\*   "never": a multi-threaded port is never tied to a single-threaded one, nor ports of different interfaces
\*   "must" : two ports of one copy with equal semantics and interface can be tied with that copy's ConnectPorts
\*   "either": everything else (e.g. equal semantics across two copies)
Verdict(via, a, b) ==
  IF a.sem # b.sem \/ a.itf # b.itf THEN "never"
  ELSE IF a.ns = via /\ b.ns = via THEN "must"
  ELSE "either"

\* the shipped overload set satisfies the verdicts
TypingLaw(via, a, b) ==
  /\ (Verdict(via, a, b) = "never" => ~Compiles(via, a, b))
  /\ (Verdict(via, a, b) = "must" => Compiles(via, a, b))

(***************************************************************************)
(* The effect of the tie (Dezyne's connect): a port is [in, out] with the   *)
(* handler installed for each direction ("none" = unbound).                 *)
(***************************************************************************)
Connect(provided, required) ==
  [provided |-> [provided EXCEPT !.out = required.out],      \* the provider's out-events go to the requirer's handlers
   required |-> [required EXCEPT !.in = provided.in]]        \* the requirer's in-events go to the provider's handlers
\* after the tie an in-event called on the required side runs the provider's handler, an out-event raised on the
\* provided side runs the requirer's handler
ConnectLaw(provided, required) ==
  LET r == Connect(provided, required) IN r.required.in = provided.in /\ r.provided.out = required.out
=============================================================================
