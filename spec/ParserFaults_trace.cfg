SPECIFICATION Spec
CONSTANT Mode = "trace"
CONSTRAINT Progress
POSTCONDITION Accepted
CHECK_DEADLOCK FALSE
