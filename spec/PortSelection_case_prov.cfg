SPECIFICATION Spec
CONSTANTS
  PNames = {"a", "A"}
  RNames = {"x"}
  Side = "provides"
INVARIANT Law
CONSTRAINT Emit
CHECK_DEADLOCK FALSE
