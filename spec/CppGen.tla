------------------------------- MODULE CppGen -------------------------------
(***************************************************************************)
(* cpp_gen.py: C++ building blocks as descriptions and the token sequences *)
(* of their rendered declaration and definition (property C20).            *)
(*   type  = [ids, root, targ, post, const]     (targ: ids of the template *)
(*            argument or <<>>; post: "" | "&" | "*")                      *)
(*   param = [type, name, def]                  (def: tokens of default)   *)
(*   fn    = [kind |-> "function", ret, name, params, prefix, cav,         *)
(*            override, init, body, scope]      (scope: "" = free function)*)
(*   ctor  = [kind |-> "ctor", scope, explicit, params, init, mil, body]   *)
(*   dtor  = [kind |-> "dtor", scope, override, init, body]                *)
(* body: sequence of statement token sequences (one per content line).     *)
(***************************************************************************)
EXTENDS Naturals, Sequences, FiniteSets

RECURSIVE Cat(_)
Cat(ss) == IF ss = <<>> THEN <<>> ELSE Head(ss) \o Cat(Tail(ss))
RECURSIVE Sep(_, _)          \* join token sequences with a separator token
Sep(ss, s) == IF ss = <<>> THEN <<>> ELSE IF Len(ss) = 1 THEN ss[1] ELSE ss[1] \o <<s>> \o Sep(Tail(ss), s)

FqnTok(ids, root) == (IF root /\ ids # <<>> THEN <<"::">> ELSE <<>>) \o Sep([i \in 1..Len(ids) |-> <<ids[i]>>], "::")
TypeTok(t) == (IF t.const THEN <<"const">> ELSE <<>>) \o FqnTok(t.ids, t.root)
              \o (IF t.targ # <<>> THEN <<"<">> \o FqnTok(t.targ, FALSE) \o <<">">> ELSE <<>>)
              \o (IF t.post # "" THEN <<t.post>> ELSE <<>>)
ParamDecl(p) == TypeTok(p.type) \o <<p.name>> \o (IF p.def # <<>> THEN <<"=">> \o p.def ELSE <<>>)
ParamDef(p)  == TypeTok(p.type) \o <<p.name>>
ParamsDecl(ps) == Sep([i \in 1..Len(ps) |-> ParamDecl(ps[i])], ",")
ParamsDef(ps)  == Sep([i \in 1..Len(ps) |-> ParamDef(ps[i])], ",")
Opt(c, toks) == IF c THEN toks ELSE <<>>
Body(b) == <<"{">> \o Cat(b) \o <<"}">>

\* construction-time validation (CppGenError)
Valid(d) ==
  CASE d.kind = "function" -> /\ ~(d.prefix = "virtual" /\ d.scope = "")
                              /\ ~(d.init = <<"0">> /\ d.prefix # "virtual")
    [] d.kind = "ctor" -> ~(d.init # <<>> /\ d.mil # <<>>)
    [] OTHER -> TRUE

Decl(d) ==
  CASE d.kind = "function" ->
         Opt(d.prefix # "", <<d.prefix>>) \o TypeTok(d.ret) \o <<d.name, "(">> \o ParamsDecl(d.params) \o <<")">>
         \o Opt(d.cav # "", <<d.cav>>) \o Opt(d.override, <<"override">>) \o Opt(d.init # <<>>, <<"=">> \o d.init) \o <<";">>
    [] d.kind = "ctor" ->
         Opt(d.explicit, <<"explicit">>) \o <<d.scope, "(">> \o ParamsDecl(d.params) \o <<")">>
         \o Opt(d.init # <<>>, <<"=">> \o d.init) \o <<";">>
    [] d.kind = "dtor" ->
         <<"~", d.scope, "(", ")">> \o Opt(d.override, <<"override">>) \o Opt(d.init # <<>>, <<"=">> \o d.init) \o <<";">>

Def(d) ==
  IF d.init # <<>> THEN <<>>                       \* no definition when the declaration is initialised
  ELSE CASE d.kind = "function" ->
              TypeTok(d.ret) \o Opt(d.scope # "", <<d.scope, "::">>) \o <<d.name, "(">> \o ParamsDef(d.params) \o <<")">>
              \o Opt(d.cav # "", <<d.cav>>) \o Body(d.body)
         [] d.kind = "ctor" ->
              <<d.scope, "::", d.scope, "(">> \o ParamsDef(d.params) \o <<")">>
              \o Opt(d.mil # <<>>, <<":">> \o Sep(d.mil, ",")) \o Body(d.body)
         [] d.kind = "dtor" -> <<d.scope, "::", "~", d.scope, "(", ")">> \o Body(d.body)

(***************************************************************************)
(* Property C20 on the model: declaration and definition denote the same   *)
(* entity.  Signature = tokens up to (not including) ';', '{' or ':' after *)
(* the parameter list.                                                     *)
(***************************************************************************)
DeclOnly == {"virtual", "static", "explicit", "override"}
RECURSIVE Drop(_, _)
Drop(toks, S) == IF toks = <<>> THEN <<>> ELSE (IF Head(toks) \in S THEN <<>> ELSE <<Head(toks)>>) \o Drop(Tail(toks), S)
\* index of the ')' closing the parameter list = last ')' before the first of ; { : at nesting 0 - here simply the
\* position after which only cav/override/=init/;/{/: follow; computed from the description instead:
SigDecl(d) == CASE d.kind = "function" -> TypeTok(d.ret) \o <<d.name, "(">> \o ParamsDef(d.params) \o <<")">> \o Opt(d.cav # "", <<d.cav>>)
                [] d.kind = "ctor" -> <<d.scope, "(">> \o ParamsDef(d.params) \o <<")">>
                [] d.kind = "dtor" -> <<"~", d.scope, "(", ")">>
SameEntity(d) ==
  Valid(d) /\ d.init = <<>> =>
    LET def == Def(d)
        qual == IF d.kind = "function" THEN (IF d.scope # "" THEN <<d.scope, "::">> ELSE <<>>) ELSE <<d.scope, "::">>
        head == IF d.kind = "function" THEN TypeTok(d.ret) ELSE <<>>
        sig  == SigDecl(d)
        rest == SubSeq(sig, Len(head) + 1, Len(sig))
    IN  \* the definition starts with: head, owner qualification, then the declaration's signature without defaults
        /\ SubSeq(def, 1, Len(head) + Len(qual) + Len(rest)) = head \o qual \o rest
        /\ \A i \in 1..Len(def) : def[i] \notin DeclOnly
        \* the declaration, stripped of declaration-only tokens and defaults, is that same signature
        /\ Drop(SubSeq(Decl(d), 1, Len(Decl(d)) - 1), DeclOnly) =
             (CASE d.kind = "function" -> TypeTok(d.ret) \o <<d.name, "(">> \o ParamsDecl(d.params) \o <<")">> \o Opt(d.cav # "", <<d.cav>>)
                [] d.kind = "ctor" -> <<d.scope, "(">> \o ParamsDecl(d.params) \o <<")">>
                [] d.kind = "dtor" -> <<"~", d.scope, "(", ")">>)
NoDefWhenInitialised(d) == Valid(d) /\ d.init # <<>> => Def(d) = <<>>

\* blocks
NamespaceTok(ids, content) ==
  LET name == FqnTok(ids, FALSE) IN
  IF content = <<>> THEN <<"namespace">> \o name \o <<"{", "}">>
  ELSE <<"namespace">> \o name \o <<"{">> \o content \o <<"}", "//namespace">> \o name
StructTok(kw, name, content) == <<kw, name, "{">> \o content \o <<"}", ";">>
\* AccessSpecifiedSection: the access specifier (none for ANONYMOUS) followed by the unchanged contents
SectionTok(spec, content) == (IF spec = "" THEN <<>> ELSE <<spec, ":">>) \o content
\* SystemIncludes / ProjectIncludes: a comment naming the kind (plural iff more than one) and one #include per name
\* a name is [raw, sys (its tokens), q (the quoted literal as one token)]
IncludeTok(system, name) == <<"#", "include">> \o (IF system THEN <<"<">> \o name.sys \o <<">">> ELSE <<name.q>>)
IncludesTok(system, names) ==
  <<(IF system THEN "//System" ELSE "//Project"), (IF Len(names) > 1 THEN "includes" ELSE "include")>>
  \o Cat([i \in 1..Len(names) |-> IncludeTok(system, names[i])])
MemberTok(t, name) == TypeTok(t) \o <<name, ";">>
=============================================================================
