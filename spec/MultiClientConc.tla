--------------------------- MODULE MultiClientConc ---------------------------
(***************************************************************************)
(* The generated multi-client support under concurrency (property C11),    *)
(* shaped like the implementation: the lambda installed for a client's     *)
(* claim performs the forwarded call (a blocking hand-off to the           *)
(* dispatcher) and then, as a SEPARATE step on the client thread,          *)
(* Select(id) under the selector lock; release likewise with Deselect(id); *)
(* an out-event is delivered by the dispatcher while it holds the lock.    *)
(*                                                                         *)
(* Threads: the clients, the dispatcher "disp" (runs queued closures one   *)
(* at a time) and the component's out-event source (runs on the dispatcher *)
(* in a real system; here a separate step so that every timing is seen).   *)
(* pc[c]: idle -> claimQ (closure queued, caller blocked) -> claimR (reply *)
(*   in hand) -> sel (granted, about to Select) -> holding -> relQ -> relR *)
(*   -> desel (about to Deselect) -> idle/done                             *)
(* The wrapped component is a well-behaved arbiter: it grants iff unclaimed.*)
(*                                                                         *)
(* Switches (from the known-findings list):                                *)
(*   DeselectChecksIdentity = FALSE: Deselect(id) clears whatever is       *)
(*       selected (shipped; known finding H)                               *)
(*   SelectInDispatcher = FALSE: selection happens after the hand-off on   *)
(*       the client thread (shipped; known finding I)                      *)
(***************************************************************************)
EXTENDS Naturals, Sequences, FiniteSets, TLC, Json

CONSTANTS Clients, Cycles, MaxOuts, DeselectChecksIdentity, SelectInDispatcher, StrayRelease

None == "none"
VARIABLES pc, left, queue, compClaimed, holder, sel, owner, outs, target, hist
vars == <<pc, left, queue, compClaimed, holder, sel, owner, outs, target, hist>>
\* hist is an observation variable: the VIEW hides it, so every state is explored once (with one shortest history)
View == <<pc, left, queue, compClaimed, holder, sel, owner, outs, target>>

Init == /\ pc = [c \in Clients |-> "idle"] /\ left = [c \in Clients |-> Cycles]
        /\ queue = <<>> /\ compClaimed = FALSE /\ holder = None /\ sel = None
        /\ owner = None /\ outs = 0 /\ target = None /\ hist = <<>>

Log(a, c) == hist' = Append(hist, [a |-> a, c |-> c])

\* --- client side ---------------------------------------------------------------------------
\* the client calls the claim event: its closure is queued, the caller blocks
ClaimEnter(c) == /\ pc[c] = "idle" /\ left[c] > 0
                 /\ pc' = [pc EXCEPT ![c] = "claimQ"] /\ queue' = Append(queue, [k |-> "claim", c |-> c])
                 /\ Log("ClaimEnter", c) /\ UNCHANGED <<left, compClaimed, holder, sel, owner, outs, target>>
\* a client that does not hold the claim releases anyway (stray release)
StrayEnter(c) == /\ StrayRelease /\ pc[c] = "idle" /\ left[c] > 0 /\ holder # c
                 /\ pc' = [pc EXCEPT ![c] = "relQ"] /\ queue' = Append(queue, [k |-> "release", c |-> c])
                 /\ left' = [left EXCEPT ![c] = @ - 1]
                 /\ Log("StrayEnter", c) /\ UNCHANGED <<compClaimed, holder, sel, owner, outs, target>>
\* Select(id) on the client thread, under the lock
Select(c) == /\ pc[c] = "sel" /\ owner = None
             /\ sel' = c /\ pc' = [pc EXCEPT ![c] = "holding"]
             /\ Log("Select", c) /\ UNCHANGED <<left, queue, compClaimed, holder, owner, outs, target>>
ClaimDenied(c) == /\ pc[c] = "denied" /\ pc' = [pc EXCEPT ![c] = "idle"] /\ left' = [left EXCEPT ![c] = @ - 1]
                  /\ Log("ClaimDenied", c) /\ UNCHANGED <<queue, compClaimed, holder, sel, owner, outs, target>>
ReleaseEnter(c) == /\ pc[c] = "holding"
                   /\ pc' = [pc EXCEPT ![c] = "relQ"] /\ queue' = Append(queue, [k |-> "release", c |-> c])
                   /\ left' = [left EXCEPT ![c] = @ - 1]
                   /\ Log("ReleaseEnter", c) /\ UNCHANGED <<compClaimed, holder, sel, owner, outs, target>>
\* Deselect(id) on the client thread, under the lock
Deselect(c) == /\ pc[c] = "desel" /\ owner = None
               /\ sel' = IF DeselectChecksIdentity /\ sel # c THEN sel ELSE None
               /\ pc' = [pc EXCEPT ![c] = "idle"]
               /\ Log("Deselect", c) /\ UNCHANGED <<left, queue, compClaimed, holder, owner, outs, target>>

\* --- dispatcher ----------------------------------------------------------------------------
\* runs the head closure: the component handles the forwarded claim / release
Dispatch == /\ queue # <<>> /\ owner # "disp"
            /\ LET q == Head(queue) IN
               /\ queue' = Tail(queue)
               /\ IF q.k = "claim"
                  THEN IF ~compClaimed
                       THEN /\ compClaimed' = TRUE /\ holder' = q.c
                            /\ IF SelectInDispatcher THEN sel' = q.c /\ pc' = [pc EXCEPT ![q.c] = "holding"]
                                                     ELSE sel' = sel /\ pc' = [pc EXCEPT ![q.c] = "sel"]
                       ELSE /\ pc' = [pc EXCEPT ![q.c] = "denied"] /\ UNCHANGED <<compClaimed, holder, sel>>
                  ELSE \* the component cannot know who released: it considers the claim free again
                       /\ compClaimed' = FALSE /\ holder' = (IF holder = q.c THEN None ELSE holder)
                       /\ pc' = [pc EXCEPT ![q.c] = "desel"] /\ sel' = sel
               /\ hist' = Append(hist, [a |-> IF q.k = "claim" THEN (IF compClaimed THEN "DispatchClaimDenied" ELSE "DispatchClaimGranted")
                                                ELSE "DispatchRelease", c |-> q.c])
            /\ UNCHANGED <<left, owner, outs, target>>

\* --- out-events ------------------------------------------------------------------------------
\* the component raises an out-event: the dispatcher takes the lock, reads the selection and calls that
\* client's handler WHILE HOLDING the lock; OutEnd returns from the handler and releases the lock
OutBegin == /\ outs < MaxOuts /\ owner = None
            /\ owner' = "disp" /\ target' = sel /\ outs' = outs + 1
            /\ hist' = Append(hist, [a |-> "OutBegin", c |-> sel, h |-> holder, hp |-> IF holder = None THEN "" ELSE pc[holder]])
            /\ UNCHANGED <<pc, left, queue, compClaimed, holder, sel>>
OutEnd   == /\ owner = "disp"
            /\ owner' = None /\ target' = None
            /\ Log("OutEnd", target) /\ UNCHANGED <<pc, left, queue, compClaimed, holder, sel, outs>>

Next == \/ \E c \in Clients : ClaimEnter(c) \/ StrayEnter(c) \/ Select(c) \/ ClaimDenied(c) \/ ReleaseEnter(c) \/ Deselect(c)
        \/ Dispatch \/ OutBegin \/ OutEnd
Spec == Init /\ [][Next]_vars

Finished == (\A c \in Clients : pc[c] = "idle" /\ left[c] = 0) /\ queue = <<>> /\ owner = None
\* no deadlock: whenever not everything is finished some step is possible (checked with TLC's deadlock check
\* through this disjunct: a finished system may stutter)
NextOrDone == Next \/ (Finished /\ UNCHANGED vars)
SpecD == Init /\ [][NextOrDone]_vars

(***************************************************************************)
(* Properties                                                               *)
(***************************************************************************)
\* the selection changes only while the lock is free, i.e. never during a delivery
MutualExclusion == [][owner = "disp" => sel' = sel]_vars
\* delivery goes to the client that was selected when the lock was taken
DeliveryUnderLock == owner = "disp" => target = sel
\* C11, strict: a client that has been granted the claim receives the out-events until it itself releases
InWindowI == holder # None /\ pc[holder] = "sel"                 \* granted, Select not yet executed
\* the selection was cleared / not restored by a Deselect of a client that is not the holder
InWindowH == holder # None /\ pc[holder] = "holding" /\ sel # holder
HolderReceives == owner = "disp" /\ holder # None /\ pc[holder] \in {"sel", "holding"} => target = holder
HolderReceivesExceptKnown ==
  owner = "disp" /\ holder # None /\ pc[holder] \in {"sel", "holding"} /\ target # holder
     => (~SelectInDispatcher /\ pc[holder] = "sel") \/ (~DeselectChecksIdentity /\ pc[holder] = "holding")
\* nobody but the holder (or nobody at all) ever receives
OnlyHolderOrNobody == owner = "disp" /\ target # None => target = holder \/ (holder = None) \/ InWindowH \/ pc[target] \in {"relQ", "desel"}

Classify == IF owner = "disp" /\ holder # None /\ pc[holder] \in {"sel", "holding"} /\ target # holder
            THEN PrintT(<<"STRICT-C11", IF pc[holder] = "sel" THEN "I" ELSE "H", hist>>)
            ELSE TRUE
EmitAll == Len(hist) = 0 \/ PrintT(ToJson([hist |-> hist, sel |-> sel, holder |-> holder, owner |-> owner, target |-> target,
                                           pc |-> pc, queue |-> Len(queue)]))
=============================================================================
