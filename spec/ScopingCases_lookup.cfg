SPECIFICATION Spec
CONSTANTS
  Ids = {"a", "ab", "c"}
  MaxName = 2
  MaxScope = 2
  Mode = "lookup"
  Chars = {97}
  MaxStr = 0
INVARIANT Lookup
CONSTRAINT Emit
CHECK_DEADLOCK FALSE
