SPECIFICATION Spec
CONSTANTS
  Alphabet = {97, 32, 9, 47, 10, 13, 11, 12, 28, 29, 30, 133, 8232, 8233, 31}
  MaxLen = 3
  Mode = "atoms"
INVARIANT NoBreakInLines
INVARIANT RoundTrip
INVARIANT EmptyContributesNothing
INVARIANT ChunkLaw
INVARIANT CommentLaw
CONSTRAINT Emit
CHECK_DEADLOCK FALSE
