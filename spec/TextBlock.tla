----------------------------- MODULE TextBlock -----------------------------
(***************************************************************************)
(* text_gen.TextBlock as an object with a history.  One action per public  *)
(* call; `hist` records the calls so that every reachable state is one     *)
(* history that the harness replays on a real TextBlock, comparing header, *)
(* lines and string form after every call.                                 *)
(***************************************************************************)
EXTENDS Indent, TLC, Json

CONSTANTS Contents,     \* content values offered to new/append/add
          Headers,      \* header values offered to the constructor
          Cfgs,         \* indenter configurations
          MaxOps,       \* bound on the history length
          IsComment     \* TRUE: the object is a cpp_gen.Comment ('// ' bullets applied at render time)

VARIABLES hdr, lines, hist,
          ind           \* the indenter configuration the block currently holds (set_indentor / indent(x) keep it)
vars == <<hdr, lines, hist, ind>>

DefaultCfg == [tab |-> FALSE, n |-> 4, mode |-> "none", glyph |-> <<>>]     \* Indentizer()
CommentCfg == [tab |-> FALSE, n |-> 3, mode |-> "all", glyph |-> <<47, 47>>]
InitialCfg == IF IsComment THEN CommentCfg ELSE DefaultCfg

Init == hdr = <<>> /\ lines = <<>> /\ hist = <<>> /\ ind = InitialCfg

Log(op) == hist' = Append(hist, op)

\* TextBlock(content, header)
TbNew(c, h) == /\ hist = <<>>
               /\ hdr' = (IF Truthy(h) THEN AppendLines(h) ELSE <<>>)
               /\ lines' = AppendLines(c) /\ ind' = InitialCfg
               /\ Log([op |-> "new", c |-> c, h |-> h])

\* append(content) and the in-place operator +=
TbAppend(c) == /\ hist # <<>>
               /\ lines' = lines \o AppendLines(c) /\ UNCHANGED <<hdr, ind>>
               /\ Log([op |-> "append", c |-> c])

TbIAdd(c) == /\ hist # <<>>
             /\ lines' = lines \o AppendLines(c) /\ UNCHANGED <<hdr, ind>>
             /\ Log([op |-> "iadd", c |-> c])

\* self + content: a NEW block without header and with a fresh default indenter; the machine continues with the result
TbAdd(c) == /\ hist # <<>>
            /\ lines' = lines \o AppendLines(c) /\ hdr' = <<>> /\ ind' = DefaultCfg
            /\ Log([op |-> "add", c |-> c])

TbTrim(e) == /\ hist # <<>>
             /\ lines' = TrimLines(lines, e) /\ UNCHANGED <<hdr, ind>>
             /\ Log([op |-> "trim", endOnly |-> e])

\* indent(indentizer): the buffer is replaced, the header is never indented; the given indenter becomes the
\* block's configured one ("specified in one sweep"), so a later bare indent() uses it again
TbIndent(cfg) == /\ hist # <<>>
                 /\ lines' = ToList(cfg, lines) /\ ind' = cfg /\ UNCHANGED hdr
                 /\ Log([op |-> "indent", cfg |-> cfg])

\* indent() without argument: the configured indenter
TbIndentBare == /\ hist # <<>>
                /\ lines' = ToList(ind, lines) /\ UNCHANGED <<hdr, ind>>
                /\ Log([op |-> "indentbare"])

\* set_indentor(indentizer): configuration only
TbSetIndentor(cfg) == /\ hist # <<>>
                      /\ ind' = cfg /\ UNCHANGED <<hdr, lines>>
                      /\ Log([op |-> "setind", cfg |-> cfg])

\* cpp_gen.Comment.__str__: indents a deep copy, the object itself is left alone
Render == StrOfBlock(<<>>, ToList(CommentCfg, lines))
TbRender == /\ IsComment /\ hist # <<>>
            /\ UNCHANGED <<hdr, lines, ind>>
            /\ Log([op |-> "render"])

Next == /\ Len(hist) < MaxOps
        /\ \/ \E c \in Contents, h \in Headers : TbNew(c, h)
           \/ \E c \in Contents : TbAppend(c) \/ TbIAdd(c)
           \* `comment + x` is a plain TextBlock, no longer text rendered as a comment: not part of the comment machine
           \/ \E c \in Contents : ~IsComment /\ TbAdd(c)
           \/ \E e \in BOOLEAN : TbTrim(e)
           \/ \E cfg \in Cfgs : TbIndent(cfg) \/ TbSetIndentor(cfg)
           \* a Comment's own indenter is its '//' rendering: bare indent()/set_indentor on it are outside the comment machine
           \/ ~IsComment /\ TbIndentBare
           \/ TbRender

Spec == Init /\ [][Next]_vars

Str == StrOfBlock(hdr, lines)

(***************************************************************************)
(* Properties (C17, C18 header clause) on the model                         *)
(***************************************************************************)
NoBreakInLines == \A i \in 1..Len(lines) : ~HasBreak(lines[i])
NoBreakInHeader == \A i \in 1..Len(hdr) : ~HasBreak(hdr[i])
\* string form: every header and content line followed by exactly one newline
StrForm == Str = Concat([i \in 1..Len(hdr \o lines) |-> (hdr \o lines)[i] \o <<LF>>])
RoundTrip == (hdr \o lines) # <<>> => AppendLines(StrV(Str)) = hdr \o lines

IsSuffix(s, full) == Len(s) <= Len(full) /\ SubSeq(full, Len(full) - Len(s) + 1, Len(full)) = s
AllEmpty(ls) == \A i \in 1..Len(ls) : ls[i] = <<>>
\* trimming removes only leading/trailing blank lines
TrimOnlyEnds == [][\A e \in BOOLEAN : TbTrim(e) =>
                     \E i \in 0..Len(lines), j \in 0..Len(lines) :
                        /\ i + j <= Len(lines) /\ (e => i = 0)
                        /\ lines' = SubSeq(lines, i + 1, Len(lines) - j)
                        /\ AllEmpty(SubSeq(lines, 1, i)) /\ AllEmpty(SubSeq(lines, Len(lines) - j + 1, Len(lines)))
                        /\ (lines' # <<>> => (lines'[Len(lines')] # <<>> /\ (~e => lines'[1] # <<>>)))]_vars
\* appending is concatenation; the header is never touched by append/trim/indent
AppendIsConcat == [][\A c \in Contents : TbAppend(c) =>
                       (SubSeq(lines', 1, Len(lines)) = lines /\ hdr' = hdr)]_vars
HeaderUntouched == [][((\E cfg \in Cfgs : TbIndent(cfg)) \/ TbIndentBare) => hdr' = hdr]_vars
IndentKeepsCount == [][((\E cfg \in Cfgs : TbIndent(cfg)) \/ TbIndentBare) => Len(lines') = Len(lines)]_vars
\* a bare indent() right after indent(cfg) indents with cfg again (repeated indentation with the configured indenter)
BareUsesConfigured == [][TbIndentBare => lines' = ToList(ind, lines)]_vars

(***************************************************************************)
(* C19 on the model: rendered comment lines all start with '//' and carry  *)
(* the stored text; rendering is read-only.                                *)
(***************************************************************************)
RenderedLines == ToList(CommentCfg, lines)
CommentLaw == IsComment =>
  /\ Len(RenderedLines) = Len(lines)
  /\ \A i \in 1..Len(lines) :
        /\ IsPrefix(<<47, 47>>, RenderedLines[i])
        /\ RenderedLines[i] = (IF IsBlankStr(lines[i]) THEN <<47, 47>> ELSE <<47, 47, SP>> \o RStrip(lines[i]))
        /\ ~HasBreak(RenderedLines[i])
RenderReadOnly == [][TbRender => UNCHANGED <<hdr, lines>>]_vars

Emit == hist = <<>> \/ PrintT(ToJson([hist |-> hist, hdr |-> hdr, lines |-> lines, str |-> Str,
                                       comment |-> IsComment, render |-> IF IsComment THEN Render ELSE <<>>]))
=============================================================================
