SPECIFICATION Spec
CONSTANTS
  Threads = {"x", "y"}
  MaxOps = 6
INVARIANT AtMostOne
PROPERTY OnlyOwnerWrites
CONSTRAINT Emit
CHECK_DEADLOCK FALSE
