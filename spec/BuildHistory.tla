---------------------------- MODULE BuildHistory ----------------------------
(***************************************************************************)
(* Builds as events in the life of one or more Python processes (C08, C12, *)
(* build part of C19).                                                     *)
(*                                                                         *)
(* F is the function (model content, configuration content) -> output that *)
(* the builder is supposed to implement.  F is not given: it is INFERRED   *)
(* from the events.  A build event is explained iff it is the first for    *)
(* its key (F grows) or repeats F[key] - whatever process, hash seed, set  *)
(* construction order, builder instance or earlier builds it comes with:   *)
(* the environment is deliberately not part of the key.  G does the same   *)
(* for the non-comment part of the output with copyright/creator removed   *)
(* from the key.  Inputs must have the same deep digest before and after,  *)
(* hashes must be MD5 of the UTF-8 contents, support files must equal the  *)
(* stand-alone generated ones.                                             *)
(***************************************************************************)
EXTENDS Naturals, Sequences, FiniteSets, TLC

\* e = [key, ckey, out, ncout, before, after, md5ok, supportok, ok]
InputsUntouched(e) == e.before = e.after
Consistent(Fn, k, v) == IF k \in DOMAIN Fn THEN Fn[k] = v ELSE TRUE     \* (no \/: TLC splits action-level disjunctions)
Extend(Fn, k, v) == IF k \in DOMAIN Fn THEN Fn ELSE Fn @@ (k :> v)

Explained(F, G, e) ==
  /\ InputsUntouched(e)                     \* C12: model and configuration observably unchanged
  /\ Consistent(F, e.key, e.out)            \* C08/C12: output is a function of (model, configuration) only
  /\ (e.ok => Consistent(G, e.ckey, e.ncout))   \* C19: copyright/creator change nothing but comment lines
  /\ (e.ok => e.md5ok /\ e.supportok)       \* C08: hash = MD5(utf-8); C12: support files = stand-alone
=============================================================================
