SPECIFICATION Spec
CONSTANT MaxLen = 3
CONSTRAINT Emit
CHECK_DEADLOCK FALSE
