SPECIFICATION Spec
CONSTANTS
  Alphabet = {97}
  MaxLen = 0
  Mode = "nested"
INVARIANT NoBreakInLines
INVARIANT RoundTrip
INVARIANT EmptyContributesNothing
INVARIANT DepthFirst
INVARIANT ChunkLaw
INVARIANT CommentLaw
CONSTRAINT Emit
CHECK_DEADLOCK FALSE
