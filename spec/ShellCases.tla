----------------------------- MODULE ShellCases -----------------------------
(***************************************************************************)
(* Case spaces over ShellStructure.tla.                                    *)
(*  Mode "port-type" | "formal-type" | "claim-enum"  (C07): environments   *)
(*    in which interfaces / externs / enums share a simple name in global, *)
(*    nested, sibling scopes (plus a same-named declaration of another     *)
(*    kind), every spelling of the reference, every referring scope.       *)
(*  Mode "faults" (C13): a family of valid (model, configuration) pairs    *)
(*    and every single-fault variation of each.                            *)
(***************************************************************************)
EXTENDS ShellStructure, TLC, Json

CONSTANT Mode

D(kind, fqn) == [kind |-> kind, fqn |-> fqn, events |-> <<>>, fields |-> <<>>, cpp |-> "", ports |-> <<>>]
Ev(name, dir, reply, formals) == [name |-> name, dir |-> dir, reply |-> reply, formals |-> formals]
Fm(name, type, dir) == [name |-> name, type |-> type, dir |-> dir]
Pt(name, type, dir, inj) == [name |-> name, type |-> type, dir |-> dir, inj |-> inj]
NoMc == [on |-> FALSE, port |-> "", claim |-> "", grant |-> <<"x">>, release |-> ""]
AllSts == [sts |-> Wild("ALL"), mts |-> Wild("NONE")]
AllMts == [sts |-> Wild("NONE"), mts |-> Wild("ALL")]
Cfg(enc, prov, req, mc) == [enc |-> enc, prov |-> prov, req |-> req, mc |-> mc, origin |-> "create",
                            prefix |-> <<>>, suffix |-> "Shell", base |-> "M"]

Scopes == { <<>>, <<"A">>, <<"A", "B">>, <<"C">>, <<"A", "A">>, <<"AB">> }     \* AB: textual, not identifier-wise, extension of A
CppTag(s) == CASE s = <<>> -> "t_g" [] s = <<"A">> -> "t_A" [] s = <<"A", "B">> -> "t_AB" [] s = <<"C">> -> "t_C"
              [] s = <<"A", "A">> -> "t_AA" [] s = <<"AB">> -> "t_ab" [] OTHER -> "t_n"
ScopeTag(s) == CASE s = <<>> -> "g" [] s = <<"A">> -> "A" [] s = <<"A", "B">> -> "AB" [] s = <<"C">> -> "C" [] s = <<"A", "A">> -> "AA" [] s = <<"AB">> -> "ab" [] OTHER -> "n"
Spellings(n) == { <<n>>, <<"B", n>>, <<"A", "B", n>>, <<"A", n>>, <<"C", n>> }
\* a fixed order of the candidate scopes (a CHOOSE over all bijections is exponential)
ScopeOrder == << <<>>, <<"A">>, <<"A", "B">>, <<"C">>, <<"A", "A">>, <<"AB">>, <<"nested">> >>
OrderedScopes(S) == SelectSeq(ScopeOrder, LAMBDA x : x \in S)

VARIABLES cs, where, decoy, sp, base, fault
vars == <<cs, where, decoy, sp, base, fault>>

(***************************************************************************)
(* C07 environments                                                         *)
(***************************************************************************)
Mc == [on |-> TRUE, port |-> "p", claim |-> "Claim", grant |-> <<"Ok">>, release |-> "Release"]

PortTypeModel ==
  LET itfs == [i \in 1..Cardinality(where) |-> D("interface", OrderedScopes(where)[i] \o <<"I">>)]
      dk   == IF decoy = <<"none">> THEN <<>> ELSE <<[D("extern", decoy \o <<"I">>) EXCEPT !.cpp = "int"]>>
      comp == [D("component", cs \o <<"M">>) EXCEPT !.ports = <<Pt("p", sp, "provides", FALSE)>>]
  IN [decls |-> itfs \o dk \o <<comp>>, cfg |-> Cfg(cs \o <<"M">>, AllSts, AllSts, NoMc)]

FormalTypeModel ==
  LET \* "nested": an extern declared as a local type of the referring interface itself (Dezyne: type ::= enum | int | extern)
      hs   == OrderedScopes(where \ {<<"nested">>}) \o (IF <<"nested">> \in where THEN <<cs \o <<"I">> >> ELSE <<>>)
      exts == [i \in 1..Len(hs) |-> [D("extern", hs[i] \o <<"T">>) EXCEPT !.cpp = CppTag(hs[i])]]
      dk   == IF decoy = <<"none">> THEN <<>> ELSE <<[D("enum", decoy \o <<"T">>) EXCEPT !.fields = <<"Ok">>]>>
      itf  == [D("interface", cs \o <<"I">>) EXCEPT !.events =
                 <<Ev("Go", "in", <<"void">>, <<Fm("a", sp, "in")>>), Ev("Sig", "out", <<"void">>, <<Fm("b", sp, "in")>>)>>]
      \* a second interface in a sibling namespace spelling its parameter type the same way
      jtf  == [D("interface", <<"C", "J">>) EXCEPT !.events =
                 <<Ev("Go", "in", <<"void">>, <<Fm("a", sp, "in")>>), Ev("Sig", "out", <<"void">>, <<Fm("b", sp, "in")>>)>>]
      comp == [D("component", <<"M">>) EXCEPT !.ports = <<Pt("p", cs \o <<"I">>, "provides", FALSE),
                                                             Pt("r", cs \o <<"I">>, "requires", FALSE),
                                                             Pt("p2", <<"C", "J">>, "provides", FALSE),
                                                             Pt("r2", <<"C", "J">>, "requires", FALSE)>>]
  IN [decls |-> exts \o dk \o <<itf, jtf, comp>>, cfg |-> Cfg(<<"M">>, AllMts, AllMts, NoMc)]

ClaimEnumModel ==
  LET here  == (where \ {<<"nested">>}) \cup (IF <<"nested">> \in where THEN {cs \o <<"I">>} ELSE {})
      hs    == OrderedScopes(where \ {<<"nested">>}) \o (IF <<"nested">> \in where THEN <<cs \o <<"I">> >> ELSE <<>>)
      enums == [i \in 1..Len(hs) |-> [D("enum", hs[i] \o <<"E">>) EXCEPT !.fields = <<"No", "Ok">>]]
      dk    == IF decoy = <<"none">> THEN <<>> ELSE <<[D("extern", decoy \o <<"E">>) EXCEPT !.cpp = "int"]>>
      itf   == [D("interface", cs \o <<"I">>) EXCEPT !.events =
                  <<Ev("Claim", "in", sp, <<>>), Ev("Release", "in", <<"void">>, <<>>), Ev("Sig", "out", <<"void">>, <<>>)>>]
      comp  == [D("component", <<"M">>) EXCEPT !.ports = <<Pt("p", cs \o <<"I">>, "provides", FALSE)>>]
  IN [decls |-> enums \o dk \o <<itf, comp>>, cfg |-> Cfg(<<"M">>, AllMts, AllMts, Mc)]

(***************************************************************************)
(* C13 base family and faults                                               *)
(***************************************************************************)
I1(s) == [D("interface", s \o <<"I1">>) EXCEPT !.events =
            <<Ev("Claim", "in", <<"E">>, <<Fm("a", <<"T">>, "in"), Fm("b", <<"T">>, "out")>>),
              Ev("Release", "in", <<"void">>, <<Fm("a", <<"T">>, "in")>>),
              Ev("Other", "in", <<"void">>, <<>>),
              Ev("Sig", "out", <<"void">>, <<Fm("c", <<"T">>, "in")>>)>>]
I2(s) == [D("interface", s \o <<"I2">>) EXCEPT !.events =
            <<Ev("Cmd", "in", <<"void">>, <<Fm("x", <<"T">>, "inout")>>),
              Ev("Note", "out", <<"void">>, <<Fm("y", <<"T">>, "in")>>)>>]
BaseDecls(s, inj) ==
  << [D("extern", <<"T">>) EXCEPT !.cpp = "int"],
     [D("enum", s \o <<"E">>) EXCEPT !.fields = <<"Ok", "No">>],
     I1(s), I2(s),
     [D("component", s \o <<"M">>) EXCEPT !.ports =
        <<Pt("p", <<"I1">>, "provides", FALSE), Pt("r", <<"I2">>, "requires", FALSE),
          Pt("r1", <<"I1">>, "requires", FALSE)>>          \* the component also requires the interface it provides
        \o (IF inj THEN <<Pt("q", <<"I2">>, "requires", TRUE)>> ELSE <<>>)] >>
Sems == {"all_sts", "all_mts", "mts_sts", "sts_mts", "explicit", "explicit-only"}
Prov(sem) == CASE sem \in {"all_sts", "sts_mts"} -> AllSts
               [] sem \in {"all_mts", "mts_sts"} -> AllMts
               [] OTHER -> [sts |-> Wild("NONE"), mts |-> Named({"p"})]
Req(sem)  == CASE sem \in {"all_sts", "mts_sts"} -> AllSts
               [] sem \in {"all_mts", "sts_mts"} -> AllMts
               [] sem = "explicit-only" -> [sts |-> Named({"r", "r1"}), mts |-> Wild("NONE")]      \* injected q stays unnamed
               [] OTHER -> [sts |-> Named({"r"}), mts |-> Wild("REMAINING")]
Bases == {b \in [s : {<<>>, <<"A">>}, inj : BOOLEAN, sem : Sems, mc : BOOLEAN] :
            b.mc => b.sem \in {"all_mts", "mts_sts", "explicit", "explicit-only"}}
BaseModel(b) == [decls |-> BaseDecls(b.s, b.inj),
                 cfg |-> Cfg(b.s \o <<"M">>, Prov(b.sem), Req(b.sem), IF b.mc THEN Mc ELSE NoMc)]

Faults == {"none", "enc-unknown", "enc-empty", "enc-interface", "enc-enum", "enc-ambiguous",
           "port-type-missing", "port-type-wrong-kind", "port-type-ambiguous", "port-type-ambiguous-chain",
           "sel-unknown", "sel-unassigned", "sel-contradictory", "sel-all-plus", "sel-all-remaining", "sel-mixed-provides",
           "sel-equal-none",
           "mc-port-unknown", "mc-port-requires", "mc-port-requires-same-itf", "mc-port-sts", "mc-port-sts-remaining", "mc-claim-unknown", "mc-reply-not-enum",
           "mc-grant-bad", "mc-release-unknown", "mc-release-out", "mc-release-is-claim",
           "mc-port-empty", "mc-claim-empty", "mc-grant-empty", "mc-release-empty",
           "formal-missing", "formal-wrong-kind", "formal-ambiguous", "formal-ambiguous-chain"}
McFaults == {"mc-port-unknown", "mc-port-requires", "mc-port-requires-same-itf", "mc-port-sts", "mc-port-sts-remaining", "mc-claim-unknown", "mc-reply-not-enum",
             "mc-grant-bad", "mc-release-unknown", "mc-release-out", "mc-release-is-claim",
             "mc-port-empty", "mc-claim-empty", "mc-grant-empty", "mc-release-empty"}

CompIdx(m) == CHOOSE i \in DOMAIN m.decls : m.decls[i].kind = "component"
WithPort1Type(m, ty) == [m EXCEPT !.decls[CompIdx(m)].ports[1].type = ty]
NoteFormal(m, ty) == [m EXCEPT !.decls[4].events[2].formals[1].type = ty]          \* I2.Note(y)

Apply(m, b, f) ==
  CASE f = "none" -> m
    [] f = "enc-unknown"   -> [m EXCEPT !.cfg.enc = <<"Nope">>]
    [] f = "enc-empty"     -> [m EXCEPT !.cfg.enc = <<>>]               \* an empty fully qualified name denotes nothing
    [] f = "enc-interface" -> [m EXCEPT !.cfg.enc = b.s \o <<"I1">>]
    [] f = "enc-enum"      -> [m EXCEPT !.cfg.enc = b.s \o <<"E">>]
    [] f = "enc-ambiguous" -> [m EXCEPT !.decls = Append(@, m.decls[CompIdx(m)])]
    [] f = "port-type-missing"    -> WithPort1Type(m, <<"Zz">>)
    [] f = "port-type-wrong-kind" -> WithPort1Type(m, <<"T">>)
    [] f = "port-type-ambiguous"  -> [m EXCEPT !.decls = Append(@, I1(b.s))]
    \* a second I1 in the global scope: for a component in namespace A both A.I1 and I1 are on the scope chain
    [] f = "port-type-ambiguous-chain" -> [m EXCEPT !.decls = Append(@, I1(<<>>))]
    [] f = "sel-unknown"    -> [m EXCEPT !.cfg.req = [sts |-> Named({"zz"}), mts |-> Wild("REMAINING")]]
    [] f = "sel-unassigned" -> [m EXCEPT !.decls[CompIdx(m)].ports = Append(@, Pt("r2", <<"I2">>, "requires", FALSE)),
                                         !.cfg.req = [sts |-> Named({"r"}), mts |-> Wild("NONE")]]
    [] f = "sel-contradictory"  -> [m EXCEPT !.cfg.req = [sts |-> Named({"r"}), mts |-> Named({"r"})]]
    [] f = "sel-all-plus"       -> [m EXCEPT !.cfg.req = [sts |-> Wild("ALL"), mts |-> Named({"r"})]]
    [] f = "sel-all-remaining"  -> [m EXCEPT !.cfg.req = [sts |-> Wild("ALL"), mts |-> Wild("REMAINING")]]
    [] f = "sel-mixed-provides" -> [m EXCEPT !.cfg.prov = [sts |-> Named({"p"}), mts |-> Wild("REMAINING")]]
    [] f = "sel-equal-none"     -> [m EXCEPT !.cfg.req = [sts |-> Wild("NONE"), mts |-> Wild("NONE")]]
    [] f = "mc-port-unknown"    -> [m EXCEPT !.cfg.mc.port = "zz"]
    [] f = "mc-port-requires"   -> [m EXCEPT !.cfg.mc.port = "r"]
    [] f = "mc-port-requires-same-itf" -> [m EXCEPT !.cfg.mc.port = "r1"]
    [] f = "mc-port-sts"        -> [m EXCEPT !.cfg.prov = AllSts]
    [] f = "mc-port-sts-remaining" -> [m EXCEPT !.cfg.prov = [sts |-> Wild("REMAINING"), mts |-> Wild("NONE")]]   \* STS by the other wildcard
    [] f = "mc-claim-unknown"   -> [m EXCEPT !.cfg.mc.claim = "Nope"]
    [] f = "mc-reply-not-enum"  -> [m EXCEPT !.cfg.mc.claim = "Other"]
    [] f = "mc-grant-bad"       -> [m EXCEPT !.cfg.mc.grant = <<"Maybe">>]
    [] f = "mc-release-unknown" -> [m EXCEPT !.cfg.mc.release = "Nope"]
    [] f = "mc-release-out"     -> [m EXCEPT !.cfg.mc.release = "Sig"]         \* an out-event cannot release anything
    [] f = "mc-release-is-claim" -> [m EXCEPT !.cfg.mc.release = "Claim"]
    [] f = "mc-port-empty"      -> [m EXCEPT !.cfg.mc.port = ""]
    [] f = "mc-claim-empty"     -> [m EXCEPT !.cfg.mc.claim = ""]
    [] f = "mc-grant-empty"     -> [m EXCEPT !.cfg.mc.grant = <<>>]
    [] f = "mc-release-empty"   -> [m EXCEPT !.cfg.mc.release = ""]
    [] f = "formal-missing"     -> NoteFormal(m, <<"Zz">>)
    [] f = "formal-wrong-kind"  -> NoteFormal(m, <<"E">>)
    [] f = "formal-ambiguous"   -> [m EXCEPT !.decls = Append(@, [D("extern", <<"T">>) EXCEPT !.cpp = "long"])]
    \* an extern T local to interface I2 next to the global T: both are on the chain of I2's formals
    [] f = "formal-ambiguous-chain" -> [m EXCEPT !.decls = Append(@, [D("extern", b.s \o <<"I2", "T">>) EXCEPT !.cpp = "long"])]

Model ==
  CASE Mode = "port-type"   -> PortTypeModel
    [] Mode = "formal-type" -> FormalTypeModel
    [] Mode = "claim-enum"  -> ClaimEnumModel
    [] OTHER                -> Apply(BaseModel(base), base, fault)

NoBase == [s |-> <<>>, inj |-> FALSE, sem |-> "all_sts", mc |-> FALSE]
Init ==
  IF Mode = "faults"
  THEN /\ base \in Bases /\ fault \in Faults /\ (fault \in McFaults => base.mc)
       /\ cs = <<>> /\ where = {} /\ decoy = <<"none">> /\ sp = <<>>
  ELSE /\ base = NoBase /\ fault = "none"
       /\ cs \in {<<>>, <<"A">>, <<"A", "B">>, <<"AB">>}
       /\ where \in (SUBSET (Scopes \cup (IF Mode \in {"claim-enum", "formal-type"} THEN {<<"nested">>} ELSE {}))) \ {{}}
       /\ decoy \in {<<>>, <<"A">>, <<"A", "B">>, <<"none">>}
       /\ sp \in Spellings(CASE Mode = "port-type" -> "I" [] Mode = "formal-type" -> "T" [] OTHER -> "E")
Next == FALSE
Spec == Init /\ [][Next]_vars

(***************************************************************************)
(* What the referring site must be bound to (C07).                          *)
(***************************************************************************)
Site == LET m == Model IN
  CASE Mode = "port-type"   -> Resolve(m.decls, sp, cs, {"interface"})
    [] Mode = "formal-type" -> Resolve(m.decls, sp, cs \o <<"I">>, {"extern"})
    [] Mode = "claim-enum"  -> Resolve(m.decls, sp, cs \o <<"I">>, {"enum"})
    [] OTHER -> [r |-> "n/a", i |-> 0]
Site2 == IF Mode = "formal-type" THEN Resolve(Model.decls, sp, <<"C", "J">>, {"extern"}) ELSE [r |-> "ok", i |-> 0]
Bound == IF Site.r = "ok" THEN Model.decls[Site.i] ELSE D("none", <<>>)
Bound2 == IF Mode = "formal-type" /\ Site2.r = "ok" THEN Model.decls[Site2.i] ELSE D("none", <<>>)

\* C07: build succeeds iff the reference resolves to exactly one declaration of the right kind on the chain
C07Law == Mode # "faults" => (BuildOutcome(Model.decls, Model.cfg).ok <=> (Site.r = "ok" /\ Site2.r = "ok"))
\* C13: the fault-free members of the family build; Outcome is total (always ok or a named error)
C13Law == Mode = "faults" =>
  LET o == BuildOutcome(Model.decls, Model.cfg) IN
  /\ (fault = "none" => o.ok /\ ~ConfigRejected(Model.cfg))
  /\ (~o.ok => o.exc \in {"AdvShellError", "MultiClientCfgError", "FindError", "ValueError"})
  /\ (fault \notin {"none", "formal-missing", "formal-wrong-kind", "formal-ambiguous", "formal-ambiguous-chain", "sel-equal-none"}
        => (~o.ok \/ ConfigRejected(Model.cfg)))

Emit == PrintT(ToJson([mode |-> Mode, decls |-> Model.decls, cfg |-> Model.cfg,
                       rejectedAtConfig |-> ConfigRejected(Model.cfg),
                       outcome |-> BuildOutcome(Model.decls, Model.cfg),
                       site |-> Site.r, bound |-> [kind |-> Bound.kind, fqn |-> Bound.fqn, cpp |-> Bound.cpp],
                       site2 |-> Site2.r, bound2 |-> [kind |-> Bound2.kind, fqn |-> Bound2.fqn, cpp |-> Bound2.cpp],
                       base |-> base, fault |-> fault]))
=============================================================================
