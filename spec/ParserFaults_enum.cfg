SPECIFICATION Spec
CONSTANT Mode = "enum"
INVARIANT CatalogueOk
CONSTRAINT Emit
CHECK_DEADLOCK FALSE
