SPECIFICATION Spec
CONSTANTS
  Mode = "configs"
  MaxBuilds = 0
CONSTRAINT Emit
CHECK_DEADLOCK FALSE
