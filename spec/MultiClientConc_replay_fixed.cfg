SPECIFICATION SpecD
CONSTANTS
  Clients = {"A", "B"}
  Cycles = 1
  MaxOuts = 2
  DeselectChecksIdentity = TRUE
  SelectInDispatcher = TRUE
  StrayRelease = TRUE
PROPERTY MutualExclusion
INVARIANT DeliveryUnderLock
INVARIANT HolderReceives
CONSTRAINT EmitAll
VIEW View
