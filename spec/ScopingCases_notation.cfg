SPECIFICATION Spec
CONSTANTS
  Ids = {"a"}
  MaxName = 1
  MaxScope = 0
  Mode = "notation"
  Chars = {97, 90, 95, 48, 46, 58, 45, 233, 32, 10}
  MaxStr = 3
INVARIANT Notation
CONSTRAINT Emit
CHECK_DEADLOCK FALSE
