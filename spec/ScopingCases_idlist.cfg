SPECIFICATION Spec
CONSTANTS
  Ids = {"a"}
  MaxName = 1
  MaxScope = 0
  Mode = "idlist"
  Chars = {97, 95, 48, 46, 58}
  MaxStr = 0
INVARIANT ListLaw
CONSTRAINT Emit
CHECK_DEADLOCK FALSE
