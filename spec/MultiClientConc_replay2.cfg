SPECIFICATION SpecD
CONSTANTS
  Clients = {"A", "B"}
  Cycles = 2
  MaxOuts = 2
  DeselectChecksIdentity = FALSE
  SelectInDispatcher = FALSE
  StrayRelease = TRUE
PROPERTY MutualExclusion
INVARIANT DeliveryUnderLock
INVARIANT HolderReceivesExceptKnown
CONSTRAINT EmitAll
VIEW View
