SPECIFICATION Spec
CONSTANTS
  Mode = "history"
  MaxBuilds = 2
INVARIANT HistoryIndependent
CONSTRAINT Emit
CHECK_DEADLOCK FALSE
