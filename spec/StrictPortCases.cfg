SPECIFICATION Spec
INVARIANT Law
INVARIANT ConnLaw
CONSTRAINT Emit
CHECK_DEADLOCK FALSE
