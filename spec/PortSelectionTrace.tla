------------------------ MODULE PortSelectionTrace ------------------------
(***************************************************************************)
(* Validates recorded outcomes of configuring and building with arbitrary  *)
(* port selections (more names than the exhaustive bound) against          *)
(* PortSelection.tla.  Event: [prov, req, P, R, Inj, k, f] with sets as    *)
(* JSON arrays, k = "assign" | "reject" | "internal", f = <<[p, sem]..>>.  *)
(***************************************************************************)
EXTENDS PortSelection, Sequences, TLCExt, IOUtils

Traces == ndJsonDeserialize(IOEnv.TRACE_FILE)
VARIABLES t, l
vars == <<t, l>>
Ev == Traces[t].events
AsSet(s) == {s[i] : i \in DOMAIN s}
Sel(x) == [w |-> x.w, s |-> AsSet(x.s)]
PSC(x) == [sts |-> Sel(x.sts), mts |-> Sel(x.mts)]

Explained(e) ==
  LET prov == PSC(e.prov) req == PSC(e.req) P == AsSet(e.P) R == AsSet(e.R) Inj == AsSet(e.Inj)
      v == Verdict(prov, req, P, R, Inj)
      f == Assignment(prov, req, P, R)
  IN  /\ e.k \in {"assign", "reject"}                                   \* never an internal error
      /\ (v = "must-reject" => e.k = "reject")
      /\ (v = "must-assign" => e.k = "assign")
      /\ (e.k = "assign" => AsSet(e.f) = {[p |-> p, sem |-> f[p]] : p \in DOMAIN f})

TInit == t \in DOMAIN Traces /\ l = 1
TNext == l <= Len(Ev) /\ l' = l + 1 /\ t' = t /\ Explained(Ev[l])
TSpec == TInit /\ [][TNext]_vars
ASSUME \A i \in DOMAIN Traces : TLCSet(i, 0)
Progress == TLCSet(t, IF TLCGet(t) < l - 1 THEN l - 1 ELSE TLCGet(t))
Rejected == {i \in DOMAIN Traces : TLCGet(i) < Len(Traces[i].events)}
Accepted == \A i \in Rejected : PrintT(<<"REJECTED", Traces[i].id, TLCGet(i) + 1>>)
=============================================================================
