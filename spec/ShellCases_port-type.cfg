SPECIFICATION Spec
CONSTANT Mode = "port-type"
INVARIANT C07Law
INVARIANT C13Law
CONSTRAINT Emit
CHECK_DEADLOCK FALSE
