---------------------------- MODULE DznDocTrace ----------------------------
(***************************************************************************)
(* Trace validation for the parser (C05, C16): recorded life cycles of     *)
(* real DznJsonAst instances over arbitrary generated documents.  Events:  *)
(*   [op |-> "new",  i, doc]   doc = token sequence, or <<>> with nodoc    *)
(*   [op |-> "load", i, doc]                                               *)
(*   [op |-> "process", i, obs |-> [ok, fc]]                               *)
(* The model state is the document each instance holds; a process event is *)
(* explained iff its observation equals Outcome(that document).            *)
(***************************************************************************)
EXTENDS DznDoc, TLC, TLCExt, Json, IOUtils

Traces  == ndJsonDeserialize(IOEnv.TRACE_FILE)
Explain == "EXPLAIN" \in DOMAIN IOEnv /\ IOEnv.EXPLAIN = "1"

VARIABLES t, l, held          \* held: function instance -> [has |-> BOOLEAN, doc |-> tokens]
vars == <<t, l, held>>
Ev == Traces[t].events
Insts == {"1", "2", "3"}

TInit == t \in DOMAIN Traces /\ l = 1 /\ held = [i \in Insts |-> [made |-> FALSE, has |-> FALSE, doc |-> <<>>]]

Model(e) == IF held[e.i].has THEN Outcome(held[e.i].doc) ELSE [ok |-> FALSE, fc |-> Empty]

TNext ==
  /\ l <= Len(Ev) /\ l' = l + 1 /\ t' = t
  /\ LET e == Ev[l] IN
     CASE e.op = "new"  -> held' = [held EXCEPT ![e.i] = [made |-> TRUE, has |-> e.has, doc |-> e.doc]]
       [] e.op = "load" -> held[e.i].made /\ held' = [held EXCEPT ![e.i] = [made |-> TRUE, has |-> TRUE, doc |-> e.doc]]
       [] e.op = "process" ->
            /\ held[e.i].made /\ UNCHANGED held
            /\ IF Explain THEN (l < Len(Ev) \/ PrintT(<<"EXPECT", ToJson(Model(e))>>))
               ELSE Model(e) = e.obs

TSpec == TInit /\ [][TNext]_vars

ASSUME \A i \in DOMAIN Traces : TLCSet(i, 0)
Progress == TLCSet(t, IF TLCGet(t) < l - 1 THEN l - 1 ELSE TLCGet(t))
Rejected == {i \in DOMAIN Traces : TLCGet(i) < Len(Traces[i].events)}
Accepted == \A i \in Rejected : PrintT(<<"REJECTED", Traces[i].id, TLCGet(i) + 1>>)
=============================================================================
