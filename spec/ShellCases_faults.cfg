SPECIFICATION Spec
CONSTANT Mode = "faults"
INVARIANT C07Law
INVARIANT C13Law
CONSTRAINT Emit
CHECK_DEADLOCK FALSE
