----------------------------- MODULE MiscUtils -----------------------------
(***************************************************************************)
(* Behaviour of dznpy.misc_utils that no listed property needs (kept so    *)
(* that the specification covers the library, not only the properties):    *)
(* plural(), newlined_list_items(), get_basename().  Strings are sequences *)
(* of character codes as in Text.tla.  `./check extras` replays the cases; *)
(* it is not registered in MANIFEST.json and never reports a VIOLATION.    *)
(***************************************************************************)
EXTENDS Naturals, Sequences, TLC, Json

S == 115  X == 120  Z == 122  H == 104  C == 99  E == 101  A == 97  DOT == 46  SLASH == 47  LF == 10

EndsWith(s, t) == Len(s) >= Len(t) /\ SubSeq(s, Len(s) - Len(t) + 1, Len(s)) = t
\* plural(noun, collection): unchanged for 0 or 1 items; otherwise +es after s, x, z, ss, sh, ch and +s elsewhere
Plural(noun, n) ==
  IF n <= 1 THEN noun
  ELSE IF \E t \in {<<S>>, <<X>>, <<Z>>, <<S, S>>, <<S, H>>, <<C, H>>} : EndsWith(noun, t) THEN noun \o <<E, S>>
  ELSE noun \o <<S>>

\* newlined_list_items(items): the items joined by line feeds; one line feed for an empty list
RECURSIVE JoinLF(_)
JoinLF(items) == IF items = <<>> THEN <<>> ELSE IF Len(items) = 1 THEN items[1] ELSE items[1] \o <<LF>> \o JoinLF(Tail(items))
Newlined(items) == IF items = <<>> THEN <<LF>> ELSE JoinLF(items)

\* get_basename(path): without directories, without the LAST extension (a leading dot does not start an extension)
RECURSIVE LastIndex(_, _)
LastIndex(s, c) == IF s = <<>> THEN 0 ELSE IF s[Len(s)] = c THEN Len(s) ELSE LastIndex(SubSeq(s, 1, Len(s) - 1), c)
Base(path) == LET i == LastIndex(path, SLASH) IN SubSeq(path, i + 1, Len(path))
\* os.path.splitext: leading dots of the base name are not an extension separator
RECURSIVE LeadingDots(_)
LeadingDots(s) == IF s # <<>> /\ s[1] = DOT THEN 1 + LeadingDots(Tail(s)) ELSE 0
Stem(path) == LET b == Base(path)
                  k == LeadingDots(b)
                  rest == SubSeq(b, k + 1, Len(b))
                  j == LastIndex(rest, DOT)
              IN IF j = 0 THEN b ELSE SubSeq(b, 1, k + j - 1)

Nouns == { <<A>>, <<A, S>>, <<A, X>>, <<A, Z>>, <<A, S, S>>, <<A, S, H>>, <<A, C, H>>, <<A, H>>, <<C>>, <<S>> }
Paths == { <<A>>, <<A, DOT, C>>, <<A, DOT, C, DOT, E>>, <<DOT, A>>, <<DOT, A, DOT, C>>, <<S, SLASH, A, DOT, C>>,
           <<S, DOT, X, SLASH, A>>, <<SLASH, A, DOT, C>>, <<A, DOT>>, <<DOT, DOT, A>>, <<S, SLASH>> }
VARIABLES kind, arg, n
vars == <<kind, arg, n>>
Init == \/ kind = "plural" /\ arg \in Nouns /\ n \in 0..3
        \/ kind = "basename" /\ arg \in Paths /\ n = 0
        \/ kind = "newlined" /\ arg \in {<<>>, <<A>>, <<A, LF, C>>} /\ n \in 0..3
Next == FALSE
Spec == Init /\ [][Next]_vars
\* n copies of the item for "newlined"
Items == [i \in 1..n |-> arg]
Emit == PrintT(ToJson([kind |-> kind, arg |-> arg, n |-> n,
                       out |-> CASE kind = "plural" -> Plural(arg, n) [] kind = "basename" -> Stem(arg) [] OTHER -> Newlined(Items)]))
\* sanity of the model itself
PluralLaw == kind = "plural" => (n <= 1 => Plural(arg, n) = arg) /\ (n > 1 => Len(Plural(arg, n)) \in {Len(arg) + 1, Len(arg) + 2})
=============================================================================
