SPECIFICATION Spec
CONSTANTS
  PNames = {"a", "b"}
  RNames = {"x", "y"}
  Side = "presets"
INVARIANT Law
CONSTRAINT Emit
CHECK_DEADLOCK FALSE
