"""C06: generated files form valid, self-contained C++ (IncludeGraph.tla scenarios judged by g++/clang++)."""
import json
import os
import random
import re
import subprocess
from concurrent.futures import ThreadPoolExecutor

from . import core, cxx, cxxgen, model, shell
from .runtime_checks import gen_model, T1, T2, F

STD_NAMES = {
    'std::string': 'string', 'std::wstring': 'string', 'std::function': 'functional', 'std::reference_wrapper': 'functional',
    'std::ref(': 'functional', 'std::runtime_error': 'stdexcept', 'std::optional': 'optional', 'std::nullopt': 'optional',
    'std::map': 'map', 'std::vector': 'vector', 'std::mutex': 'mutex', 'std::unique_lock': 'mutex',
    'std::unique_ptr': 'memory', 'std::transform': 'algorithm', 'std::toupper': 'cctype', 'std::towupper': 'cwctype',
    'std::is_same_v': 'type_traits', 'std::move': 'utility',
}
# what the (mocked, mirroring the real) Dezyne runtime headers and some standard headers bring along
PROVIDES = {
    'dzn/meta.hh': ['algorithm', 'functional', 'stdexcept', 'string', 'vector', 'map', 'utility'],
    'dzn/locator.hh': ['map', 'stdexcept', 'string', 'typeinfo', 'iostream', 'utility'],
    'dzn/runtime.hh': ['algorithm', 'functional', 'stdexcept', 'string', 'vector', 'map', 'queue', 'tuple', 'typeinfo',
                       'iostream', 'utility'],
    'dzn/pump.hh': ['algorithm', 'functional', 'stdexcept', 'string', 'vector', 'map', 'future', 'mutex', 'thread',
                    'condition_variable', 'deque', 'atomic', 'type_traits', 'memory', 'utility'],
    'functional': ['utility', 'type_traits', 'memory'], 'string': ['utility', 'type_traits', 'cctype', 'cwctype'],
    'memory': ['utility', 'type_traits'], 'mutex': ['utility', 'type_traits'], 'optional': ['utility', 'type_traits'],
    'vector': ['utility', 'type_traits'], 'algorithm': ['utility', 'type_traits'], 'regex': ['map', 'vector', 'string', 'memory', 'utility',
                                                                                            'type_traits', 'stdexcept', 'algorithm'],
}
EXTERNAL_PROVIDES = ['functional', 'string', 'stdexcept', 'vector', 'map', 'algorithm', 'utility', 'type_traits', 'memory',
                     'mutex', 'future', 'thread']


def extract_facts(files, base):
    headers = {}
    for name, text in files.items():
        code = '\n'.join(ln for ln in text.split('\n') if not ln.lstrip().startswith('//'))
        needs = sorted({hdr for key, hdr in STD_NAMES.items() if key in code})
        headers[name] = {'quoted': re.findall(r'#include "([^"]+)"', code),
                         'system': re.findall(r'#include <([^>]+)>', code),
                         'guarded': '#pragma once' in text or bool(re.search(r'#ifndef \w+\s*\n\s*#define', text)),
                         'needs': needs, 'is_header': name.endswith('.hh')}
    return {'headers': headers, 'provides': PROVIDES, 'returned': sorted(files), 'external': [base + '.hh'],
            'external_provides': EXTERNAL_PROVIDES}


def special_models():
    """Models the statement singles out: global-namespace component, empty interface, component without ports."""
    out = []
    empty = [model.new_decl('interface', ['IEmpty'], events=[]),
             model.new_decl('component', ['Comp'], ports=[{'name': 'e', 'type': ['IEmpty'], 'dir': 'provides', 'inj': False},
                                                          {'name': 'f', 'type': ['IEmpty'], 'dir': 'requires', 'inj': False}])]
    nomc = {'on': False, 'port': '', 'claim': '', 'grant': ['x'], 'release': ''}
    out.append(('global-ns-empty-interface', empty,
                {'enc': ['Comp'], 'prov': {'sts': shell.NONE, 'mts': shell.ALL}, 'req': {'sts': shell.NONE, 'mts': shell.ALL},
                 'mc': nomc, 'origin': 'create', 'prefix': [], 'suffix': 'Shell', 'base': 'Mod'}))
    noports = [model.new_decl('component', ['A', 'Comp'], ports=[])]
    out.append(('no-ports', noports,
                {'enc': ['A', 'Comp'], 'prov': {'sts': shell.ALL, 'mts': shell.NONE}, 'req': {'sts': shell.ALL, 'mts': shell.NONE},
                 'mc': nomc, 'origin': 'import', 'prefix': ['P'], 'suffix': 'Shell', 'base': 'Mod'}))
    # the interface lives in a global namespace named like the component's innermost namespace: a relative C++ name
    # (B::I0 written inside namespace A::B) would denote something else than the Dezyne name
    i0 = [{'name': 'Go', 'dir': 'in', 'reply': ['void'], 'formals': [F('a', 'T')]},
          {'name': 'Done', 'dir': 'out', 'reply': ['void'], 'formals': [F('a', 'T')]}]
    shadow = [model.new_decl('extern', ['T'], cpp=T1), model.new_decl('interface', ['B', 'I0'], events=i0),
              model.new_decl('component', ['A', 'B', 'Comp'], ports=[
                  {'name': 'api', 'type': ['B', 'I0'], 'dir': 'provides', 'inj': False},
                  {'name': 'hal', 'type': ['B', 'I0'], 'dir': 'requires', 'inj': False}])]
    for sem, tag in ((shell.ALL, 'sts'), (shell.NONE, 'mts')):
        other = shell.NONE if sem is shell.ALL else shell.ALL
        out.append((f'shadowed-namespace-{tag}', shadow,
                    {'enc': ['A', 'B', 'Comp'], 'prov': {'sts': sem, 'mts': other}, 'req': {'sts': sem, 'mts': other},
                     'mc': nomc, 'origin': 'create', 'prefix': ['A'], 'suffix': 'Shell', 'base': 'Mod'}))
    # a support-file prefix with an inner namespace called dzn (and std): names of the runtime must stay reachable
    evs = [{'name': 'Claim', 'dir': 'in', 'reply': ['Res'], 'formals': [F('a', 'T')]},
           {'name': 'Release', 'dir': 'in', 'reply': ['void'], 'formals': []},
           {'name': 'Go', 'dir': 'in', 'reply': ['void'], 'formals': [F('a', 'T'), F('b', 'T', 'out')]},
           {'name': 'Done', 'dir': 'out', 'reply': ['void'], 'formals': [F('a', 'T')]}]
    decls = [model.new_decl('extern', ['T'], cpp=T1), model.new_decl('enum', ['A', 'Res'], fields=['Ok', 'No']),
             model.new_decl('interface', ['A', 'I0'], events=evs),
             model.new_decl('component', ['A', 'Comp'], ports=[{'name': 'api', 'type': ['I0'], 'dir': 'provides', 'inj': False},
                                                               {'name': 'hal', 'type': ['I0'], 'dir': 'requires', 'inj': False}])]
    for pre in (['Acme', 'dzn'],):       # (an inner namespace called std breaks every std:: of the support headers: not claimed)
        out.append((f'prefix-{pre[-1]}', decls,
                    {'enc': ['A', 'Comp'], 'prov': {'sts': shell.NONE, 'mts': shell.ALL}, 'req': {'sts': shell.NONE, 'mts': shell.ALL},
                     'mc': {'on': True, 'port': 'api', 'claim': 'Claim', 'grant': ['Ok'], 'release': 'Release'},
                     'origin': 'create', 'prefix': pre, 'suffix': 'Shell', 'base': 'Mod'}))
    # identifier shapes: a formal of the claim event named like something the generated claim lambda declares itself
    for nme in ('identifier', 'r'):
        evs = [{'name': 'Claim', 'dir': 'in', 'reply': ['Res'], 'formals': [F(nme, 'T')]},
               {'name': 'Release', 'dir': 'in', 'reply': ['void'], 'formals': []},
               {'name': 'Done', 'dir': 'out', 'reply': ['void'], 'formals': [F(nme, 'T')]}]
        decls = [model.new_decl('extern', ['T'], cpp=T1), model.new_decl('enum', ['A', 'Res'], fields=['Ok', 'No']),
                 model.new_decl('interface', ['A', 'I0'], events=evs),
                 model.new_decl('component', ['A', 'Comp'], ports=[{'name': 'api', 'type': ['I0'], 'dir': 'provides', 'inj': False}])]
        out.append((f'claim-formal-{nme}', decls,
                    {'enc': ['A', 'Comp'], 'prov': {'sts': shell.NONE, 'mts': shell.ALL}, 'req': {'sts': shell.ALL, 'mts': shell.NONE},
                     'mc': {'on': True, 'port': 'api', 'claim': 'Claim', 'grant': ['Ok'], 'release': 'Release'},
                     'origin': 'create', 'prefix': [], 'suffix': 'Shell', 'base': 'Mod'}))
    return out


COLLISION_MARK = {'identifier': 'previously declared as a capture', 'r': 'shadows a parameter'}


def collision_signature(name, err, shell_cc):
    """Known-finding signature for the claim-formal-* models (they exist only to exhibit that finding): the compiler's
    characteristic complaint about the colliding name must be present, located in the shell source."""
    if not name.startswith('claim-formal-'):
        return None
    nme = name.split('-')[-1]
    for line in err.splitlines():
        if ' error: ' in line and os.path.basename(line.split(':')[0]) == shell_cc and COLLISION_MARK[nme] in line:
            return [{'kind': 'formal-collides-with-generated-name', 'name': nme}]
    return None


def tu_text(seq):
    return ''.join(f'#include "{n}"\n' for n in seq if n.endswith('.hh')) + \
           ''.join(f'#include "{n}"\n' for n in seq if n.endswith('.cc')) + 'int main() { return 0; }\n'


def compile_tu(workdir, text, tag, compiler='g++', link=False, extra=()):
    path = os.path.join(workdir, f'tu_{tag}.cc')
    with open(path, 'w', encoding='utf-8') as fil:
        fil.write(text)
    cmd = [compiler, '-std=c++17', '-w', '-I', cxx.MOCK, '-I', workdir] + list(extra)
    cmd += ['-pthread', path, '-o', os.path.join(workdir, f'tu_{tag}.out')] if link else ['-fsyntax-only', path]
    proc = subprocess.run(cmd, capture_output=True, text=True, check=False)
    return proc.returncode == 0, proc.stderr


def classify_error(stderr, predict, headers):
    """Signatures of a rejection for the known-findings matcher: one per kind of error line; every error line of the
    compiler output must be explained by a listed finding for the scenario to count as known."""
    errs = [ln for ln in stderr.splitlines() if ' error: ' in ln]
    twice = set(predict.get('files') or []) if predict.get('why') == 'redefinition' else set()
    kinds = set()
    for line in errs:
        located = os.path.basename(line.split(':')[0])
        if ('redefinition of' in line or 'redeclared' in line or 'conflicting declaration' in line or 'multiple definition' in line) \
                and located in twice and not headers[located]['guarded']:
            kinds.add('redefinition-on-reinclusion')
        elif ('runtime_error' in line and ('is not a member of' in line or 'no member named' in line)) and located.endswith('_ILog.hh'):
            kinds.add('ilog-lacks-stdexcept')
        else:
            kinds.add('other-compile-error')
    if not kinds or 'other-compile-error' in kinds:
        return [{'kind': 'other-compile-error'}]
    return [{'kind': k} for k in sorted(kinds)]


def check_model(chk, name, decls, cfg, tier, rng, compilers):
    prog = cxx.Program(decls, cfg)
    if not prog.generate():
        chk.notes.append(f'{name}: model does not build ({prog.build_exc})')
        return
    base = cfg.get('base', 'M')
    workdir = core.subdir(f'c06-{name}')
    files = dict(prog.files)
    for fname, text in files.items():
        with open(os.path.join(workdir, fname), 'w', encoding='utf-8') as fil:
            fil.write(text)                                   # verbatim: exactly what the build returned
    with open(os.path.join(workdir, base + '.hh'), 'w', encoding='utf-8') as fil:
        fil.write(cxxgen.model_header(prog.info))
    facts = extract_facts(files, base)
    fpath = os.path.join(workdir, 'facts.json')
    with open(fpath, 'w', encoding='utf-8') as fil:
        json.dump(facts, fil)
    res = chk.tlc('IncludeGraph', 'IncludeGraph.cfg' if tier == 'quick' else 'IncludeGraph3.cfg', env={'FACTS_FILE': fpath},
                  workers=4)
    scenarios = res.emitted()
    if not scenarios:
        raise core.MachineryError('IncludeGraph emitted no scenarios')
    if not scenarios[0]['closed']:
        bad = [(n, q) for n, h in facts['headers'].items() for q in h['quoted'] if q not in facts['returned'] + facts['external']]
        chk.violation(f'{name}: a quoted include names a file that is not returned: {bad}', {'cfg': cfg, 'decls': decls},
                      {'kind': 'include-not-closed'})
    if tier == 'quick' and len(scenarios) > 40:
        singles = [s for s in scenarios if len(s['seq']) == 1]
        rest = [s for s in scenarios if len(s['seq']) > 1]
        scenarios = singles + rng.sample(rest, 40 - len(singles))
    chk.sample({'model': name, 'scenario': scenarios[len(scenarios) // 2]})

    def run(scn):
        verdicts = {}
        for comp in compilers:
            okay, err = compile_tu(workdir, tu_text(scn['seq']), '_'.join(s.replace('.', '_') for s in scn['seq']) + comp[:2], comp)
            verdicts[comp] = (okay, err)
        return scn, verdicts
    with ThreadPoolExecutor(max_workers=min(core.NCPU, 16)) as pool:
        for scn, verdicts in pool.map(run, scenarios):
            chk.count((name, json.dumps(scn['seq'])))
            chk.programs += 1
            okay = all(v[0] for v in verdicts.values())
            if okay != scn['predict']['accept']:
                chk.disagreements_checked += 1
            if not okay:
                rejecting = [c for c, v in verdicts.items() if not v[0]]
                err = verdicts[rejecting[0]][1]
                first = next((ln for ln in err.splitlines() if ' error: ' in ln), err[:200])
                for sig in collision_signature(name, err, prog.info.shell_name + '.cc') or \
                        classify_error(err, scn['predict'], facts['headers']):
                    chk.violation(f'{name}: translation unit including {scn["seq"]} is rejected by {rejecting}: {first[:240]}',
                                  {'cfg': cfg, 'decls': decls, 'scenario': scn, 'compiler_output': err[:2500]}, sig)
    # the shell used from a translation unit other than its own source: guarded copies isolate the linkage clause from F
    gdir = core.subdir(f'c06g-{name}')
    for fname, text in files.items():
        with open(os.path.join(gdir, fname), 'w', encoding='utf-8') as fil:
            fil.write(('#pragma once\n' if fname.endswith('.hh') else '') + text)
    with open(os.path.join(gdir, base + '.hh'), 'w', encoding='utf-8') as fil:
        fil.write(cxxgen.model_header(prog.info))
    info = prog.info
    shell_hh, shell_cc = info.shell_name + '.hh', info.shell_name + '.cc'
    with open(os.path.join(gdir, 'user.cc'), 'w', encoding='utf-8') as fil:
        fil.write(cxxgen.driver_source(info, shell_hh))
    cmd = ['g++', '-std=c++17', '-w', '-pthread', '-I', cxx.MOCK, '-I', gdir, os.path.join(gdir, 'user.cc'),
           os.path.join(gdir, shell_cc), '-o', os.path.join(gdir, 'user')]
    proc = subprocess.run(cmd, capture_output=True, text=True, check=False)
    chk.programs += 1
    chk.count((name, 'separate-translation-units'))
    if proc.returncode != 0:
        undefined = 'undefined reference' in proc.stderr
        anon = not info.scope
        sig = {'kind': 'internal-linkage-global-namespace'} if undefined and anon else {'kind': 'separate-tu-failure'}
        sig = (collision_signature(name, proc.stderr, shell_cc) or [sig])[0]
        first = next((ln for ln in proc.stderr.splitlines() if 'undefined reference' in ln or ' error: ' in ln), proc.stderr[:200])
        chk.violation(f'{name}: shell cannot be used from a translation unit other than its own source: {first[:240]}',
                      {'cfg': cfg, 'decls': decls, 'compiler_output': proc.stderr[:2500]}, sig)
    else:
        try:
            run = subprocess.run([os.path.join(gdir, 'user')], input=f'construct {"001" if info.origin == "create" else "111"}\nquit\n',
                                 capture_output=True, text=True, timeout=300, check=False)
            out, err = run.stdout, run.stderr
        except subprocess.TimeoutExpired:
            out, err = '', 'did not finish within 300 s'
        if '"ok":true' not in out:
            chk.violation(f'{name}: separately compiled shell does not construct: {out[:200]} {err[:200]}',
                          {'cfg': cfg, 'decls': decls}, {'kind': 'separate-tu-failure'})


def check_two_shells(chk, rng):
    """Two shells generated for the SAME encapsulee (different suffix, different support-file prefix, opposite semantics)
    are used from one translation unit: every returned header is included exactly once, both shell types must be declared
    and complete.  (Whatever a header uses to protect itself against re-inclusion must be unique per generated file.)"""
    for k in range(3):
        decls, cfg, _ = gen_model(rng, want_mc=False, nports=2)
        other = dict(cfg, suffix='Other' + cfg['suffix'], prefix=['Second'] + list(cfg['prefix'] or []),
                     prov={'sts': shell.ALL, 'mts': shell.NONE} if cfg['prov']['sts']['w'] == 'NONE' else {'sts': shell.NONE, 'mts': shell.ALL},
                     req={'sts': shell.ALL, 'mts': shell.NONE}, origin='import' if cfg['origin'] == 'create' else 'create')
        progs = [cxx.Program(decls, cfg), cxx.Program(decls, other)]
        if not all(p.generate() for p in progs):
            chk.notes.append('two-shells: a model did not build')
            continue
        workdir = core.subdir(f'c06-two-{k}')
        names = []
        for prog in progs:
            for fname, text in prog.files.items():
                with open(os.path.join(workdir, fname), 'w', encoding='utf-8') as fil:
                    fil.write(text)
            names.append(prog.info.shell_name)
        with open(os.path.join(workdir, cfg.get('base', 'M') + '.hh'), 'w', encoding='utf-8') as fil:
            fil.write(cxxgen.model_header(progs[0].info))
        text = '#include <stdexcept>\n' + ''.join(f'#include "{n}.hh"\n' for n in names)
        text += ''.join(f'static_assert(sizeof({p.info.shell_fqn}) > 0, "shell type is declared and complete");\n' for p in progs)
        text += 'int main() { return 0; }\n'
        okay, err = compile_tu(workdir, text, 'two')
        chk.programs += 1
        chk.count(('two-shells', k))
        if not okay:
            first = next((ln for ln in err.splitlines() if ' error: ' in ln), err[:200])
            anon = not progs[0].info.scope
            chk.violation(f'two shells of one encapsulee ({names}) cannot be used from one translation unit: {first[:240]}',
                          {'decls': decls, 'cfgs': [cfg, other], 'compiler_output': err[:2500]},
                          {'kind': 'two-shells-one-tu', 'anonymous': anon})


def check_prefixes(chk):
    """Support headers generated with different namespace prefixes coexist in one program."""
    core.repo_guard()
    from dznpy.support_files import strict_port, ilog, misc_utils, meta_helpers, multi_client_selector, mutex_wrapped  # noqa
    from dznpy.scoping import ns_ids_t  # pylint: disable=import-outside-toplevel
    mods = (strict_port, ilog, misc_utils, meta_helpers, multi_client_selector, mutex_wrapped)
    # (a prefix with an inner component called dzn: an unanchored dzn:: inside <prefix>::Dzn would find that one)
    prefixes = [None, ['P'], ['P', 'Q'], ['Q'], ['P_Q'], ['Acme', 'dzn']]
    sets = {}
    for pre in prefixes:
        sets[json.dumps(pre)] = [m.create_header(ns_ids_t(list(pre)) if pre else None) for m in mods]
    keys = list(sets)
    for i, ka in enumerate(keys):
        for kb in keys[i + 1:]:
            chk.count(('prefix-pair', ka, kb))
            names_a, names_b = {g.filename for g in sets[ka]}, {g.filename for g in sets[kb]}
            if names_a & names_b:
                same = all(a.contents == b.contents for a in sets[ka] for b in sets[kb] if a.filename == b.filename)
                if not same:
                    chk.violation(f'support files for prefixes {ka} and {kb} have identical file names but different contents: '
                                  f'{sorted(names_a & names_b)[:2]}', {'prefixes': [ka, kb]},
                                  {'kind': 'file-name-collision', 'prefixes': sorted([ka, kb])})
                continue
            workdir = core.subdir('c06-prefix')
            for gen in sets[ka] + sets[kb]:
                with open(os.path.join(workdir, gen.filename), 'w', encoding='utf-8') as fil:
                    fil.write(gen.contents)
            pick = lambda st: [g.filename for g in st if g.filename.endswith(('MultiClientSelector.hh', 'StrictPort.hh'))]  # noqa
            text = '#include <stdexcept>\n' + ''.join(f'#include "{n}"\n' for n in pick(sets[ka]) + pick(sets[kb]))
            text += 'int main() { return 0; }\n'
            okay, err = compile_tu(workdir, text, f'pre{i}{keys.index(kb)}', link=True)
            chk.programs += 1
            if not okay:
                first = next((ln for ln in err.splitlines() if ' error: ' in ln), err[:200])
                chk.violation(f'support headers of prefixes {ka} and {kb} do not coexist: {first[:240]}',
                              {'prefixes': [ka, kb], 'compiler_output': err[:2000]}, {'kind': 'prefix-coexistence'})


def check_c06(tier, seed):
    chk = core.Check('C06', tier, seed, level='translation_validation')
    core.repo_guard()
    chk.rule = ('for each model (random well-formed models incl. multi-client, plus a global-namespace component with an empty '
                'interface and a component without ports) the returned files are written out verbatim; IncludeGraph.tla '
                '(facts extracted from the text) enumerates every translation unit that includes 1..2/3 of the returned '
                'headers in every order and multiplicity, plus the source file, and predicts the verdict; each is given to '
                'g++ -std=c++17 -fsyntax-only (thorough: also clang++-14); the shell is also compiled as a separate '
                'translation unit, linked with a user of every member and constructed; all pairs of 5 support-file '
                'prefixes are generated and compiled together. The compiler is the judge; a rejection is a violation unless it '
                'matches a listed known finding. distinct = distinct (model, translation unit) scenarios.')
    rng = random.Random(seed * 1000 + 6)
    compilers = ['g++'] if tier == 'quick' else ['g++', 'clang++-14']
    models = special_models()
    n = 5 if tier == 'quick' else 12
    k = 0
    while len(models) < n + 4 and k < 10 * n:
        k += 1
        decls, cfg, _ = gen_model(rng, want_mc=(k % 2 == 0), clash=(k % 3 == 0), nports=(3 if k % 2 == 0 else None))
        if k % 2 == 0 and sum(1 for p in decls[-1]['ports'] if p['dir'] == 'provides') < 2:
            continue                     # a multi-client port next to another provides port
        models.append((f'random{k}', decls, cfg))
    for name, decls, cfg in models:
        check_model(chk, name, decls, cfg, tier, rng, compilers)
    check_two_shells(chk, rng)
    check_prefixes(chk)
    chk.trusted = ['mock Dezyne 2.17 runtime headers under /verif/cxx/mock (they mirror the standard headers the real ones '
                   'include)', 'mock of the Dezyne-generated model header', 'g++ 12 / clang++ 14 as the judges (errors only)']
    chk.assumptions = ['IncludeGraph.tla predictions are informational (disagreements_checked counts scenarios where the '
                       'prediction and the compiler differ); the verdict is the compiler\'s',
                       'the separate-translation-unit clause is examined on copies with "#pragma once" prepended so that it '
                       'is not masked by known finding F']
    return chk.finish()
