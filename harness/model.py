"""The flat model vocabulary of spec/ShellStructure.tla (a sequence of declarations) and its conversion to
and from abstract documents (harness/dzn.py tokens).

decl = {"kind", "fqn": [..], "events": [{"name","dir","reply":[..],"formals":[{"name","type":[..],"dir"}]}],
        "fields": [..], "cpp": str, "ports": [{"name","type":[..],"dir","inj": bool}]}
"""
from . import dzn


def new_decl(kind, fqn, events=(), fields=(), cpp='', ports=()):
    return {'kind': kind, 'fqn': list(fqn), 'events': list(events), 'fields': list(fields), 'cpp': cpp,
            'ports': list(ports)}


def _payload(dcl):
    kind = dcl['kind']
    if kind in ('component', 'foreign'):
        return {'ports': [dzn.port(p['name'], p['type'], p['dir'], p['inj']) for p in dcl['ports']]}
    if kind == 'system':
        return {'ports': [dzn.port(p['name'], p['type'], p['dir'], p['inj']) for p in dcl['ports']],
                'instances': [], 'bindings': []}
    if kind == 'interface':
        return {'events': [dzn.event(e['name'], e['dir'], e['reply'],
                                     [dzn.formal(f['name'], f['type'], f['dir']) for f in e['formals']])
                           for e in dcl['events']]}
    if kind == 'enum':
        return {'fields': list(dcl['fields'])}
    if kind == 'subint':
        return {'range': {'from': 0, 'to': 1}}
    if kind == 'extern':
        return {'value': dcl['cpp']}
    return {}


def decls_to_tokens(decls):
    """Each declaration in its own chain of single-identifier namespaces; an enum/subint/extern whose enclosing scope
    is the fqn of an interface declared in the model is written as a local type of the first such interface."""
    decls = [dict(d) for d in decls]
    itf_first = {}
    for i, dcl in enumerate(decls):
        if dcl['kind'] == 'interface':
            itf_first.setdefault(tuple(dcl['fqn']), i)
    nested = {}
    for i, dcl in enumerate(decls):
        if dcl['kind'] in ('enum', 'subint', 'extern') and tuple(dcl['fqn'][:-1]) in itf_first:
            nested.setdefault(itf_first[tuple(dcl['fqn'][:-1])], []).append(i)
    skip = {i for lst in nested.values() for i in lst}
    toks = []
    for i, dcl in enumerate(decls):
        if i in skip:
            continue
        front, last = dcl['fqn'][:-1], dcl['fqn'][-1:]
        toks.extend({'t': 'open', 'ids': [ident]} for ident in front)
        tok = {'t': 'decl', 'kind': dcl['kind'], 'name': last, 'pay': _payload(dcl), 'types': []}
        for j in nested.get(i, []):
            sub = decls[j]
            tok['types'].append({'kind': sub['kind'], 'name': sub['fqn'][-1:], 'pay': _payload(sub)})
        toks.append(tok)
        toks.extend({'t': 'close'} for _ in front)
    return toks


def tokens_to_decls(tokens):
    """Flat model of an abstract document, in the order the parser's containers are searched is irrelevant:
    the model works on sets of indices."""
    out, stack = [], []
    for tok in tokens:
        if tok['t'] == 'open':
            stack.append(list(tok['ids']))
        elif tok['t'] == 'close':
            stack.pop()
        elif tok['t'] == 'decl' and tok['kind'] not in ('import', 'file-name'):
            scope = [i for part in stack for i in part]
            pay = dzn.payload_of(tok['kind'], tok['pay'])
            kind = tok['kind']
            fqn = scope + list(tok['name'])
            if kind in ('component', 'foreign', 'system'):
                out.append(new_decl(kind, fqn, ports=[{'name': p['name'], 'type': p['type'], 'dir': p['dir'],
                                                       'inj': bool(p.get('injected'))} for p in pay['ports']]))
            elif kind == 'interface':
                out.append(new_decl(kind, fqn, events=[
                    {'name': e['name'], 'dir': e['dir'], 'reply': e['reply'],
                     'formals': [{'name': f['name'], 'type': f['type'], 'dir': f['dir']} for f in e['formals']]}
                    for e in pay['events']]))
                for sub in tok.get('types', []):
                    if sub['kind'] == 'enum':
                        out.append(new_decl('enum', fqn + list(sub['name']),
                                            fields=dzn.payload_of('enum', sub['pay'])['fields']))
                    elif sub['kind'] == 'subint':
                        out.append(new_decl('subint', fqn + list(sub['name'])))
                    elif sub['kind'] == 'extern':
                        out.append(new_decl('extern', fqn + list(sub['name']),
                                            cpp=dzn.payload_of('extern', sub['pay'])['value']))
            elif kind == 'enum':
                out.append(new_decl(kind, fqn, fields=pay['fields']))
            elif kind == 'subint':
                out.append(new_decl(kind, fqn))
            elif kind == 'extern':
                out.append(new_decl(kind, fqn, cpp=pay['value']))
    return out


def cfg_to_desc(cfg, **over):
    """Configuration record of the spec -> cfg descriptor of harness/shell.py."""
    from . import shell  # pylint: disable=import-outside-toplevel
    mcc = cfg['mc']
    desc = shell.default_cfg(
        encapsulee=cfg['enc'], suffix=cfg.get('suffix', 'Shell'), origin=cfg.get('origin', 'create'),
        prefix=list(cfg['prefix']) if cfg.get('prefix') else None,
        provides=cfg['prov'], requires=cfg['req'],
        multiclient={'port': mcc['port'], 'claim': mcc['claim'], 'grant': mcc['grant'], 'release': mcc['release']}
        if mcc['on'] else None, file=cfg.get('dir', '') + cfg.get('base', 'M') + '.dzn')
    desc.update(over)
    return desc
