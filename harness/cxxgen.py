"""Generation of the C++ side of the conformance harness from a flat model (harness/model.py) and a configuration
record: the mock of the header `dzn code` would emit for the model, and a command-driven driver linked with the real
generated shell.  Everything here is derived from the model and the configuration by the harness' own rules (the
vocabulary of spec/ShellStructure.tla) - never from the builder's output."""
import json

BUILTIN_REPLY = {'void': 'void', 'bool': 'bool', 'int': 'int'}
SEARCHABLE = ('component', 'enum', 'extern', 'foreign', 'interface', 'subint', 'system')


def cap(name):
    return name[0].upper() + name[1:]


def cpp_fqn(ids):
    return '::' + '::'.join(ids)


def find_all(decls, name, scope):
    order = [list(scope[:k]) + list(name) for k in range(len(scope), -1, -1)]
    return [d for d in decls if d['kind'] in SEARCHABLE and d['fqn'] in order]


def resolve(decls, name, scope, kinds):
    """The unique declaration of one of `kinds` on the scope chain, else None (Scoping.tla Resolve)."""
    found = find_all(decls, name, scope)
    if len(found) != 1 or found[0]['kind'] not in kinds:
        return None
    return found[0]


def sem_of(psc, port):
    if port in psc['sts']['s']:
        return 'STS'
    if port in psc['mts']['s']:
        return 'MTS'
    if psc['sts']['w'] in ('ALL', 'REMAINING'):
        return 'STS'
    if psc['mts']['w'] in ('ALL', 'REMAINING'):
        return 'MTS'
    return 'UNASSIGNED'


class Info:
    """Everything the generators need to know about (model, configuration)."""

    def __init__(self, decls, cfg):
        self.decls, self.cfg = decls, cfg
        self.enc = resolve(decls, cfg['enc'], [], ('component', 'system'))
        assert self.enc is not None, 'encapsulee must resolve'
        self.scope = self.enc['fqn'][:-1]
        self.shell_name = cfg.get('base', 'M') + cfg.get('suffix', 'Shell')
        self.shell_fqn = cpp_fqn(self.scope + [self.shell_name]) if self.scope else self.shell_name
        self.prefix_ns = '::' + '::'.join(list(cfg.get('prefix') or []) + ['Dzn'])
        self.file_prefix = '_'.join(list(cfg.get('prefix') or []) + ['Dzn'])
        self.origin = cfg.get('origin', 'create')
        self.mc = cfg['mc'] if cfg['mc']['on'] else None
        self.ports = []
        for prt in self.enc['ports']:
            itf = resolve(decls, prt['type'], self.scope, ('interface',))
            assert itf is not None, f'port type of {prt["name"]} must resolve'
            exposed = prt['dir'] == 'provides' or not prt['inj']
            sem = sem_of(cfg['prov'] if prt['dir'] == 'provides' else cfg['req'], prt['name']) if exposed else None
            self.ports.append({'name': prt['name'], 'dir': prt['dir'], 'inj': prt['inj'], 'itf': itf, 'sem': sem,
                               'exposed': exposed,
                               'mc': bool(self.mc and prt['dir'] == 'provides' and prt['name'] == self.mc['port'])})

    def reply_cpp(self, itf, evt):
        name = evt['reply']
        if len(name) == 1 and name[0] in BUILTIN_REPLY:
            return BUILTIN_REPLY[name[0]], 'builtin'
        dcl = resolve(self.decls, name, itf['fqn'], ('enum', 'subint'))
        if dcl is None:
            return 'void', 'unresolved'
        if dcl['kind'] == 'enum':
            return cpp_fqn(dcl['fqn']) + '::type', 'enum'
        return 'int', 'subint'

    def reply_kind(self, itf, evt):
        cpp, kind = self.reply_cpp(itf, evt)
        if cpp == 'void':
            return 'void'
        return cpp if kind == 'builtin' else kind          # 'bool' | 'int' | 'enum' | 'subint'

    def formal_cpp(self, itf, frm):
        ext = resolve(self.decls, frm['type'], itf['fqn'], ('extern',))
        return ext['cpp'] if ext is not None else 'int /*unresolved*/'

    def accessor(self, prt):
        pre = 'Provides' if prt['dir'] == 'provides' else 'Requires'
        return f'{pre}MultiClient{cap(prt["name"])}' if prt['mc'] else f'{pre}{cap(prt["name"])}'

    def route(self):
        """The routing table of the generated shell (vocabulary of spec/ShellRuntime.tla)."""
        table = []
        for prt in self.ports:
            if not prt['exposed']:
                continue
            for evt in prt['itf']['events']:
                if prt['dir'] == 'provides':
                    mech = ('direct' if prt['sem'] == 'STS' else 'shell') if evt['dir'] == 'in' else \
                        ('direct' if prt['sem'] == 'STS' else ('select' if prt['mc'] else 'ref'))
                    kind = 'provides-' + evt['dir']
                else:
                    mech = ('direct' if prt['sem'] == 'STS' else 'post') if evt['dir'] == 'out' else \
                        ('direct' if prt['sem'] == 'STS' else 'ref')
                    kind = 'requires-' + evt['dir']
                role = ''
                if prt['mc'] and evt['dir'] == 'in':
                    role = 'claim' if evt['name'] == self.mc['claim'] else ('release' if evt['name'] == self.mc['release'] else '')
                table.append({'port': prt['name'], 'event': evt['name'], 'kind': kind, 'mech': mech, 'sem': prt['sem'],
                              'mc': prt['mc'], 'role': role,
                              'dirs': [f['dir'] for f in evt['formals']],
                              'reply': self.reply_kind(prt['itf'], evt)})
        return table


# ----------------------------------------------------------------------------------------------
# mock of the Dezyne-generated model header
# ----------------------------------------------------------------------------------------------

HELPERS = r'''
namespace verif
{
  inline int val(int v) { return v; }
  inline int val(bool v) { return v ? 1 : 0; }
  template <typename T> auto val(const T& t) -> decltype(t.v) { return t.v; }
  template <typename T> T mk(int v) { return T(v); }
}
'''


def base_type(typ):
    """The object type behind an extern's C++ text (strip const and a trailing reference)."""
    typ = typ.strip()
    if typ.endswith('&'):
        typ = typ[:-1].strip()
    if typ.startswith('const '):
        typ = typ[6:].strip()
    return typ


def ns_open(ids):
    return ''.join(f'namespace {i} {{ ' for i in ids)


def ns_close(ids):
    return '}' * len(ids)


def fn_type(info, itf, evt):
    ret = info.reply_cpp(itf, evt)[0]
    args = ', '.join(info.formal_cpp(itf, f) + ('&' if f['dir'] != 'in' else '') + ' ' + f['name'] for f in evt['formals'])
    return f'std::function<{ret}({args})>'


def handler(info, itf, evt, side, port, client_expr='""', reactions=False):
    """A recording handler lambda body for event evt (component side or user side)."""
    ret, kind = info.reply_cpp(itf, evt)
    params = ', '.join(info.formal_cpp(itf, f) + ('&' if f['dir'] != 'in' else '') + f' a{i}' for i, f in enumerate(evt['formals']))
    ins = ', '.join(f'verif::val(a{i})' for i, f in enumerate(evt['formals']) if f['dir'] in ('in', 'inout'))
    body = ['verif::hscope hs_;',
            f'verif::entry e{{"{side}", "{port}", "{evt["name"]}", verif::ctx_name(), {client_expr}, {{{ins}}}, {{}}, 0, false}};']
    for i, frm in enumerate(evt['formals']):
        if frm['dir'] != 'in':
            body.append(f'a{i} = verif::mk<{base_type(info.formal_cpp(itf, frm))}>(verif::next_out()); e.outs.push_back(verif::val(a{i}));')
    if ret != 'void':
        body.append(f'e.reply = verif::reply_for("{port}", "{evt["name"]}");')
    else:
        body.append(f'(void)verif::reply_for("{port}", "{evt["name"]}");')     # lets the mock arbiter see releases
    body.append('verif::record(e);')
    if side == 'comp' and reactions:
        body.append(f'{{ auto rit = verif::S().react.find("{port}.{evt["name"]}"); if (rit != verif::S().react.end()) '
                    '{ dzn::verif::harness_depth() -= 1; verif_react(rit->second); dzn::verif::harness_depth() += 1; } }')
    body.append(f'verif::yield_point("handler/{side}/{port}/{evt["name"]}");')
    if ret != 'void':
        body.append(f'return static_cast<{ret}>(e.reply);' if kind != 'builtin' or ret == 'int' else 'return e.reply != 0;')
    return f'[=]({params}) {{ ' + ' '.join(body) + ' }'


def model_header(info):
    decls = info.decls
    out = ['// Mock of the header `dzn code` would generate for the model (verification harness).',
           '#ifndef VERIF_MOCK_MODEL_HH', '#define VERIF_MOCK_MODEL_HH',
           '#include <dzn/meta.hh>', '#include <dzn/locator.hh>', '#include <dzn/runtime.hh>', '#include <dzn/pump.hh>',
           '#include <functional>', '#include <string>', '#include "verif_rt.hh"', HELPERS]
    seen = set()
    for dcl in decls:
        if dcl['kind'] == 'extern' and base_type(dcl['cpp']).startswith('::vt::') and base_type(dcl['cpp']) not in seen:
            seen.add(base_type(dcl['cpp']))
            name = base_type(dcl['cpp'])[6:]
            out.append(f'namespace vt {{ struct {name} {{ int v; {name}() : v(0) {{}} explicit {name}(int x) : v(x) {{}} }}; }}')
    itf_fqns = {tuple(d['fqn']) for d in decls if d['kind'] == 'interface'}
    for dcl in decls:
        if dcl['kind'] == 'enum' and tuple(dcl['fqn'][:-1]) not in itf_fqns:
            fields = ', '.join(dcl['fields']) or 'verif_none'
            out.append(f'{ns_open(dcl["fqn"][:-1])}struct {dcl["fqn"][-1]} {{ enum type {{ {fields} }}; }}; {ns_close(dcl["fqn"][:-1])}')
    done = set()
    for dcl in decls:
        if dcl['kind'] != 'interface' or tuple(dcl['fqn']) in done:
            continue
        done.add(tuple(dcl['fqn']))
        name = dcl['fqn'][-1]
        lines = [f'{ns_open(dcl["fqn"][:-1])}struct {name} {{']
        for sub in decls:
            if sub['kind'] == 'enum' and sub['fqn'][:-1] == dcl['fqn']:
                lines.append(f'  struct {sub["fqn"][-1]} {{ enum type {{ {", ".join(sub["fields"]) or "verif_none"} }}; }};')
        lines.append('  dzn::port::meta meta;')
        for direction in ('in', 'out'):
            lines.append('  struct {')
            for evt in dcl['events']:
                if evt['dir'] == direction:
                    lines.append(f'    {fn_type(info, dcl, evt)} {evt["name"]};')
            lines.append(f'  }} {direction};')
        lines.append(f'  {name}(const dzn::port::meta& m) : meta(m) {{}}')
        lines.append('  void check_bindings() const {')
        for evt in dcl['events']:
            lines.append(f'    if (!{evt["dir"]}.{evt["name"]}) throw dzn::binding_error(meta, "{evt["dir"]}.{evt["name"]}");')
        lines.append('  }')
        lines.append('};')
        # what `dzn code` emits next to every interface: tie a provided to a required port
        lines.append(f'inline void connect({name}& provided, {name}& required) {{ provided.out = required.out; required.in = provided.in; '
                     'provided.meta.require = required.meta.require; required.meta.provide = provided.meta.provide; }')
        lines.append(ns_close(dcl["fqn"][:-1]))
        out.append('\n'.join(lines))
    enc = info.enc
    name = enc['fqn'][-1]
    lines = [f'{ns_open(enc["fqn"][:-1])}struct {name} {{',
             '  dzn::meta dzn_meta;', '  const dzn::locator& dzn_locator;', '  dzn::runtime* verif_rt;', '  dzn::pump* verif_pump;']
    for prt in info.ports:
        lines.append(f'  {cpp_fqn(prt["itf"]["fqn"])} {prt["name"]};')
    lines.append(f'  static {name}*& last() {{ static {name}* l = nullptr; return l; }}')
    lines.append('  void verif_react(const std::string& what) {   // the component raises an out-event while handling an in-event')
    for prt in info.ports:
        if prt['dir'] != 'provides':
            continue
        for evt in prt['itf']['events']:
            if evt['dir'] == 'out':
                args = ', '.join(f'verif::mk<{base_type(info.formal_cpp(prt["itf"], f))}>({771 + i})' for i, f in enumerate(evt['formals']))
                lines.append(f'    if (what == "{prt["name"]}.{evt["name"]}") {{ {prt["name"]}.out.{evt["name"]}({args}); return; }}')
    lines.append('  }')
    inits = []
    for prt in info.ports:
        n = prt['name']
        if prt['dir'] == 'provides':
            inits.append(f'{n}({{{{"{n}", &{n}, this, &dzn_meta}}, {{"", nullptr, nullptr, nullptr}}}})')
        else:
            inits.append(f'{n}({{{{"", nullptr, nullptr, nullptr}}, {{"{n}", &{n}, this, &dzn_meta}}}})')
    lines.append(f'  {name}(const dzn::locator& loc) : dzn_meta{{"", "{name}", nullptr, {{}}, {{}}, {{}}}}, dzn_locator(loc), '
                 'verif_rt(loc.try_get<dzn::runtime>()), verif_pump(loc.try_get<dzn::pump>())' +
                 ''.join(', ' + i for i in inits) + ' {')
    lines.append('    last() = this;')
    for prt in info.ports:
        for evt in prt['itf']['events']:
            mine = (prt['dir'] == 'provides' and evt['dir'] == 'in') or (prt['dir'] == 'requires' and evt['dir'] == 'out')
            if mine:
                lines.append(f'    {prt["name"]}.{evt["dir"]}.{evt["name"]} = '
                             f'{handler(info, prt["itf"], evt, "comp", prt["name"], reactions=(prt["dir"] == "provides"))};')
            elif prt['inj']:      # an injected port is bound through the locator by Dezyne itself
                lines.append(f'    {prt["name"]}.{evt["dir"]}.{evt["name"]} = {handler(info, prt["itf"], evt, "injected", prt["name"])};')
    lines.append('  }')
    lines.append('  void check_bindings() const {')
    for prt in info.ports:
        lines.append(f'    {prt["name"]}.check_bindings();')
    lines.append('  }')
    lines.append(f'}}; {ns_close(enc["fqn"][:-1])}')
    out.append('\n'.join(lines))
    out.append('#endif')
    return '\n'.join(out) + '\n'


# ----------------------------------------------------------------------------------------------
# the driver
# ----------------------------------------------------------------------------------------------

DRIVER_HEAD = r'''
#include <sstream>
#include <memory>
#include <type_traits>
static std::unique_ptr<SHELL> sh;
static dzn::pump* user_pump = nullptr;
static dzn::runtime* user_rt = nullptr;
static int other_service = 7;
static dzn::locator user_loc;
static dzn::meta parent_meta{"parent", "Parent", nullptr, {}, {}, {}};
static std::vector<std::thread> threads;
static LOGDECL

static dzn::pump* the_pump() { return COMP::last() ? COMP::last()->verif_pump : nullptr; }

template <typename T, typename = void> struct has_locator : std::false_type {};
template <typename T> struct has_locator<T, decltype(void(std::declval<T&>().Locator()))> : std::true_type {};
template <typename T> const void* locator_of(T& s, std::true_type) { return &s.Locator(); }
template <typename T> const void* locator_of(T&, std::false_type) { return nullptr; }

static bool quiet()
{
  verif::state& s = verif::S();
  dzn::pump* p = the_pump();
  return s.clients_active - s.shell_waiting - s.parked <= 0 && !(p && p->running());
}
static bool wait_quiet(int ms = 20000)       // generous: the verdict "not quiescent" must not depend on machine load
{
  verif::state& s = verif::S();
  auto deadline = std::chrono::steady_clock::now() + std::chrono::milliseconds(ms);
  std::unique_lock<std::mutex> lock(s.m);
  int stable = 0;
  while (std::chrono::steady_clock::now() < deadline)
  {
    bool q;
    { dzn::pump* p = the_pump(); lock.unlock(); bool run = p && p->running(); lock.lock();
      q = s.clients_active - s.shell_waiting - s.parked <= 0 && !run; }
    if (q) { if (++stable >= 2) return true; } else stable = 0;
    s.cv.wait_for(lock, std::chrono::milliseconds(stable ? 1 : 5));
  }
  return false;
}
static std::map<const void*, std::string> waiting_names;

static bool abort_on_stuck = true;
static void report(const std::string& cmd, const std::string& res)
{
  bool q = wait_quiet();
  verif::state& s = verif::S();
  std::unique_lock<std::mutex> lock(s.m);
  std::ostringstream o;
  o << "{\"cmd\":" << verif::json_str(cmd) << ",\"res\":" << (res.empty() ? "null" : res) << ",\"quiet\":" << (q ? "true" : "false");
  dzn::pump* p = the_pump();
  lock.unlock();
  size_t queued = p ? p->queued() : 0, posted = p ? p->posted() : 0, executed = p ? p->executed() : 0;
  lock.lock();
  o << ",\"queue\":" << queued << ",\"posted\":" << posted << ",\"executed\":" << executed;
  o << ",\"blocked\":[";
  { bool first = true; for (auto& kv : waiting_names) { o << (first ? "" : ",") << verif::json_str(kv.second); first = false; } }
  o << "],\"parked\":{";
  { bool first = true; for (auto& kv : s.at) { o << (first ? "" : ",") << verif::json_str(kv.first) << ":" << verif::json_str(kv.second); first = false; } }
  o << "},\"log\":[";
  for (size_t i = s.reported; i < s.log.size(); ++i)
  {
    const verif::entry& e = s.log[i];
    o << (i > s.reported ? "," : "") << "{\"side\":" << verif::json_str(e.side) << ",\"port\":" << verif::json_str(e.port)
      << ",\"event\":" << verif::json_str(e.event) << ",\"ctx\":" << verif::json_str(e.ctx) << ",\"client\":" << verif::json_str(e.client)
      << ",\"args\":" << verif::json_ints(e.args) << ",\"outs\":" << verif::json_ints(e.outs) << ",\"reply\":" << e.reply << "}";
  }
  s.reported = s.log.size();
  o << "],\"done\":{";
  { bool first = true; for (auto& kv : s.results) { o << (first ? "" : ",") << verif::json_str(kv.first) << ":" << kv.second; first = false; } }
  s.results.clear();
  o << "}}";
  std::cout << o.str() << std::endl;
  if (!q && abort_on_stuck)       // a thread keeps running or is stuck: nothing after this point is meaningful
  {
    std::cout << "{\"cmd\":\"STUCK\"}" << std::endl;
    std::_Exit(0);
  }
}

static std::string exc_json(const std::exception& ex, const char* type)
{
  return std::string("{\"ok\":false,\"type\":\"") + type + "\",\"what\":" + verif::json_str(ex.what()) + "}";
}
#define CATCH_ALL(var) \
  catch (const dzn::binding_error& ex) { var = exc_json(ex, "binding_error"); } \
  catch (const std::runtime_error& ex) { var = exc_json(ex, "runtime_error"); } \
  catch (const std::exception& ex) { var = exc_json(ex, "exception"); }

static void finish(const std::string& who, const std::string& json)
{
  dzn::verif::hscope hs_;
  verif::state& s = verif::S();
  std::unique_lock<std::mutex> lock(s.m);
  s.results[who] = json;
  --s.clients_active;
  s.cv.notify_all();
}
static void spawn(const std::string& who, std::function<std::string()> body)
{
  { verif::state& s = verif::S(); std::unique_lock<std::mutex> lock(s.m); ++s.clients_active; }
  threads.emplace_back([who, body] {
    verif::tname = who;
    verif::yield_point("start");
    std::string r;
    try { r = body(); }
    CATCH_ALL(r)
    dzn::verif::hscope hs_;
    finish(who, r);
  });
}
'''

DRIVER_MAIN = r'''
#ifdef VERIF_LOCK_YIELD
// Every lock operation performed by generated/support code (i.e. outside harness scopes) is a yield point "lock":
// the scheduler sees how many critical sections a step of the generated code consists of.
#include <dlfcn.h>
extern "C" int pthread_mutex_lock(pthread_mutex_t* m)
{
  typedef int (*fn_t)(pthread_mutex_t*);
  static fn_t real = nullptr;
  if (!real) { ++dzn::verif::harness_depth(); real = (fn_t)dlsym(RTLD_NEXT, "pthread_mutex_lock"); --dzn::verif::harness_depth(); }
  if (dzn::verif::harness_depth() == 0) { dzn::verif::hscope hs_; verif::yield_point("lock"); }
  return real(m);
}
#endif
int main(int argc, char** argv)
{
  dzn::verif::harness_depth() = 1;        // the main thread is the scheduler: never a yield point
  std::ios::sync_with_stdio(true);
  if (argc > 1 && std::string(argv[1]) == "free") dzn::verif::free_running() = true;
  auto& h = dzn::verif::the_hooks();
  h.shell_enter = [](const void* tok) {
    dzn::verif::hscope hs_;
    verif::yield_point("shell-enter");
    verif::state& s = verif::S(); std::unique_lock<std::mutex> lock(s.m);
    waiting_names[tok] = verif::tname; };
  // the caller counts as blocked only once its closure is in the dispatcher queue (so that a quiescent
  // snapshot never sees a blocked caller whose closure is not queued yet)
  h.on_post = [](bool from_shell) {
    dzn::verif::hscope hs_;
    if (!from_shell) return;
    verif::state& s = verif::S(); std::unique_lock<std::mutex> lock(s.m);
    ++s.shell_waiting; s.cv.notify_all(); };
  h.shell_done = [](const void* tok) {
    dzn::verif::hscope hs_;
    verif::state& s = verif::S(); std::unique_lock<std::mutex> lock(s.m);
    --s.shell_waiting; waiting_names.erase(tok); s.cv.notify_all(); };
  h.closure_begin = [] { verif::yield_point("closure"); };
  std::string line;
  while (std::getline(std::cin, line))
  {
    std::istringstream in(line);
    std::string cmd; in >> cmd;
    std::string res;
    if (cmd == "quit") break;
    else if (cmd == "construct")
    {
      std::string bits; in >> bits;
      if (!user_pump) user_pump = new dzn::pump();
      if (!user_rt) user_rt = new dzn::runtime();
      user_loc = dzn::locator();
      if (bits[0] == '1') user_loc.set(*user_pump);
      if (bits[1] == '1') user_loc.set(*user_rt);
      if (bits[2] == '1') user_loc.set(other_service);
      auto before = user_loc.verif_contents();
      COMP::last() = nullptr;
      reset_peers();
      { verif::state& s = verif::S(); std::unique_lock<std::mutex> lock(s.m); s.out_counter = 0; s.script.clear(); s.arbiter.clear(); s.react.clear(); }
      try {
        sh.reset(new SHELL(CTORARGS));
        COMP* c = COMP::last();
        verif::S().disp = c->verif_pump->worker_id(); verif::S().disp_known = true;
        std::ostringstream o;
        o << "{\"ok\":true"
          << ",\"comp_locator_is_user\":" << (&c->dzn_locator == &user_loc ? "true" : "false")
          << ",\"comp_pump_is_user\":" << (c->verif_pump == user_pump ? "true" : "false")
          << ",\"comp_runtime_is_user\":" << (c->verif_rt == user_rt ? "true" : "false")
          << ",\"comp_has_pump\":" << (c->verif_pump ? "true" : "false")
          << ",\"comp_has_runtime\":" << (c->verif_rt ? "true" : "false")
          << ",\"comp_has_other\":" << (c->dzn_locator.try_get<int>() == &other_service ? "true" : "false")
          << ",\"comp_services\":" << c->dzn_locator.verif_contents().size()
          << ",\"user_locator_unchanged\":" << (user_loc.verif_contents() == before ? "true" : "false")
          << ",\"has_locator_accessor\":" << (has_locator<SHELL>::value ? "true" : "false")
          << ",\"locator_accessor_is_comp_locator\":" << (locator_of(*sh, has_locator<SHELL>()) == &c->dzn_locator ? "true" : "false")
          << ",\"instance_name\":" << verif::json_str(c->dzn_meta.name)
          << "}";
        res = o.str();
      }
      CATCH_ALL(res)
      if (res.find("\"ok\":false") != std::string::npos)
        res.insert(res.size() - 1, std::string(",\"user_locator_unchanged\":") + (user_loc.verif_contents() == before ? "true" : "false"));
    }
    else if (cmd == "destroy")
    {
      // the shell goes out of scope: whatever it owns goes with it, what the user owns stays as it is
      sh.reset(); COMP::last() = nullptr; reset_peers();
      res = std::string("{\"ok\":true,\"user_pump_stopped\":") + (user_pump && user_pump->verif_stopped() ? "true" : "false") + "}";
    }
    else if (cmd == "final")
    {
      try { sh->FinalConstruct(&parent_meta);
            res = std::string("{\"ok\":true,\"parent_recorded\":") + (COMP::last()->dzn_meta.parent == &parent_meta ? "true" : "false") + "}"; }
      CATCH_ALL(res)
    }
    else if (cmd == "react") { std::string p, e, o; in >> p >> e >> o; verif::S().react[p + "." + e] = p + "." + o; res = "{\"ok\":true}"; }
    else if (cmd == "script") { std::string p, e; int v; in >> p >> e >> v; verif::S().script[p + "." + e] = v; res = "{\"ok\":true}"; }
    else if (cmd == "yielding") { int v; in >> v; verif::state& s = verif::S(); std::unique_lock<std::mutex> lock(s.m);
          s.yielding = v != 0; s.yield_at.clear(); std::string pre; while (in >> pre) s.yield_at.push_back(pre); res = "{\"ok\":true}"; }
    else if (cmd == "arbiter") { std::string port, claim, release; int g, d; in >> port >> claim >> release >> g >> d;
          verif::state& s = verif::S(); std::unique_lock<std::mutex> lock(s.m); s.arbiter[port] = {claim, release, g, d, false}; res = "{\"ok\":true}"; }
    else if (cmd == "try") { std::string who; int ms; in >> who >> ms; bool had;
          { verif::state& s = verif::S(); std::unique_lock<std::mutex> lock(s.m); had = s.at.count(who) > 0; if (had) s.go.insert(who); s.cv.notify_all();
            // the thread must have left its yield point before quiescence is judged (it still counts as parked until then)
            if (had) s.cv.wait_for(lock, std::chrono::milliseconds(20000), [&] { return s.go.count(who) == 0; }); }
          bool q = had && wait_quiet(ms);
          res = std::string("{\"ok\":") + (had ? "true" : "false") + ",\"progressed\":" + (q ? "true" : "false") + "}";
          std::cout << "{\"cmd\":" << verif::json_str(line) << ",\"res\":" << res << ",\"nowait\":true}" << std::endl; continue; }
    else if (cmd == "go") { std::string who; in >> who; { verif::state& s = verif::S(); std::unique_lock<std::mutex> lock(s.m);
          if (s.at.count(who)) { s.go.insert(who); res = "{\"ok\":true}"; } else res = "{\"ok\":false}"; s.cv.notify_all(); }
          if (res == "{\"ok\":true}") { verif::state& s = verif::S(); std::unique_lock<std::mutex> lock(s.m);
            s.cv.wait_for(lock, std::chrono::milliseconds(20000), [&] { return s.go.count(who) == 0; }); } }
    else if (cmd == "run") { std::string who, until; in >> who >> until; int released = 0;
          // Let the thread go on.  "run T lock": through log lines until it parks at a lock (nothing happens if it is there
          // already).  "run T": release it once, then through log lines, until it parks at the NEXT lock, at a handler, or is
          // done.  "run T post": through log lines only (until it is blocked in the dispatcher hand-off, parks elsewhere or is
          // done).  How often the code logs is not prescribed; its critical sections are the model's atomic actions and are
          // followed one by one.
          for (int i = 0; i < 32; ++i) {
            { verif::state& s = verif::S(); std::unique_lock<std::mutex> lock(s.m);
              if (!s.at.count(who)) break;
              const std::string at = s.at[who];
              bool is_lock = at == "lock", is_log = at.compare(0, 4, "log/") == 0;
              if (until == "lock" ? is_lock : until == "post" ? !is_log : (i > 0 && !is_log)) break;
              s.go.insert(who); ++released; s.cv.notify_all();
              s.cv.wait_for(lock, std::chrono::milliseconds(20000), [&] { return s.go.count(who) == 0; }); }
            wait_quiet();
          }
          res = "{\"ok\":true}"; }
    else if (cmd == "pump") { dzn::pump* p = the_pump(); bool ok = p && (verif::S().yielding ? p->grant() : p->step());
                              res = ok ? "{\"ok\":true}" : "{\"ok\":false}"; }
    else if (cmd == "state") { res = "{\"ok\":true}"; }
DISPATCH
    else res = "{\"ok\":false,\"what\":\"unknown command\"}";
    report(line, res);
  }
  for (auto& t : threads) if (t.joinable()) t.detach();
  std::cout << "{\"cmd\":\"quit\"}" << std::endl;
  std::_Exit(0);
}
'''


def call_code(info, prt, evt, port_expr, who_expr='who'):
    """Code (inside a spawned thread body) that performs one event call and returns the result JSON."""
    itf = prt['itf']
    ret = info.reply_cpp(itf, evt)[0]
    lines, args, k = [], [], 0
    for i, frm in enumerate(evt['formals']):
        typ = base_type(info.formal_cpp(itf, frm))
        if frm['dir'] in ('in', 'inout'):
            lines.append(f'{typ} x{i} = verif::mk<{typ}>(a.size() > {k} ? a[{k}] : 0);')
            k += 1
        else:
            lines.append(f'{typ} x{i} = verif::mk<{typ}>(-1);')
        args.append(f'x{i}')
    outs = ' '.join(f'outs.push_back(verif::val(x{i}));' for i, f in enumerate(evt['formals']) if f['dir'] != 'in')
    direction = evt['dir']
    call = f'{port_expr}.{direction}.{evt["name"]}({", ".join(args)})'
    if ret == 'void':
        lines.append(f'{call}; int r = 0;')
    else:
        lines.append(f'int r = static_cast<int>({call});')
    lines.append(f'std::vector<int> outs; {outs}')
    lines.append('return std::string("{\\"ok\\":true,\\"reply\\":") + std::to_string(r) + ",\\"outs\\":" + verif::json_ints(outs) + "}";')
    return ' '.join(lines)


def driver_source(info, shell_hh):
    comp = cpp_fqn(info.enc['fqn'])
    has_mc = any(p['mc'] for p in info.ports)
    log_decl = (f'{info.prefix_ns}::ILog the_log = {{ [](const std::string& m) {{ dzn::verif::hscope hs_; verif::yield_point("log/" + m); }}, '
                '[](const std::string&) {}, [](const std::string&) {} };') if has_mc else 'int the_log = 0;'
    ctor = 'user_loc' + (', the_log' if has_mc else '') + ', "inst"'
    out = [f'#include "{shell_hh}"', '#include "verif_rt.hh"',
           DRIVER_HEAD.replace('SHELL', info.shell_fqn).replace('COMP', comp).replace('LOGDECL', log_decl)]
    # compile-time facts from the routing table: accessor types
    asserts = []
    for prt in info.ports:
        if not prt['exposed']:
            continue
        strict = 'Sts' if prt['sem'] == 'STS' else 'Mts'
        arg = 'std::declval<const std::string&>()' if prt['mc'] else ''
        asserts.append(f'static_assert(std::is_same<decltype(std::declval<{info.shell_fqn}&>().{info.accessor(prt)}({arg})), '
                       f'{info.prefix_ns}::{strict}<{cpp_fqn(prt["itf"]["fqn"])}>>::value, "accessor type of port {prt["name"]}");')
    out.append('\n'.join(asserts))
    disp = []
    # bind / unbind (user side)
    bind_lines = []
    for prt in info.ports:
        if not prt['exposed']:
            continue
        for evt in prt['itf']['events']:
            user_side = (prt['dir'] == 'provides' and evt['dir'] == 'out') or (prt['dir'] == 'requires' and evt['dir'] == 'in')
            if not user_side:
                continue
            cond = f'(port == "{prt["name"]}" || port == "*") && (event == "{evt["name"]}" || event == "*")'
            if prt['mc']:
                bind_lines.append(f'      if ({cond} && !client.empty()) {{ auto& p = sh->{info.accessor(prt)}(client).port; '
                                  f'if (on) p.{evt["dir"]}.{evt["name"]} = {handler(info, prt["itf"], evt, "user", prt["name"], "client")}; '
                                  f'else p.{evt["dir"]}.{evt["name"]} = nullptr; n++; }}')
            else:
                bind_lines.append(f'      if ({cond} && client.empty()) {{ auto& p = sh->{info.accessor(prt)}().port; '
                                  f'if (on) p.{evt["dir"]}.{evt["name"]} = {handler(info, prt["itf"], evt, "user", prt["name"])}; '
                                  f'else p.{evt["dir"]}.{evt["name"]} = nullptr; n++; }}')
    # connect: the user ties a port object of his own to the boundary port with <prefix>::ConnectPorts (StrictPort.hh);
    # afterwards his calls go through his own port object
    peers, conn = [], []
    for prt in info.ports:
        if not prt['exposed']:
            continue
        ityp = cpp_fqn(prt['itf']['fqn'])
        strict = 'Sts' if prt['sem'] == 'STS' else 'Mts'
        peers.append(f'static std::map<std::string, std::unique_ptr<{ityp}>> peers_{prt["name"]};')
        acc = f'sh->{info.accessor(prt)}(client)' if prt['mc'] else f'sh->{info.accessor(prt)}()'
        cond = f'port == "{prt["name"]}" && ' + ('!client.empty()' if prt['mc'] else 'client.empty()')
        if prt['dir'] == 'provides':
            meta = '{{"", nullptr, nullptr, nullptr}, {"peer", nullptr, nullptr, nullptr}}'
            sets = ' '.join(f'pr->out.{e["name"]} = {handler(info, prt["itf"], e, "user", prt["name"], "client" if prt["mc"] else chr(34) * 2)}; n++;'
                            for e in prt['itf']['events'] if e['dir'] == 'out')
            tie = f'{info.prefix_ns}::ConnectPorts({acc}, {info.prefix_ns}::{strict}<{ityp}>{{*pr}});'
        else:
            meta = '{{"peer", nullptr, nullptr, nullptr}, {"", nullptr, nullptr, nullptr}}'
            sets = ' '.join(f'pr->in.{e["name"]} = {handler(info, prt["itf"], e, "user", prt["name"])}; n++;'
                            for e in prt['itf']['events'] if e['dir'] == 'in')
            tie = f'{info.prefix_ns}::ConnectPorts({info.prefix_ns}::{strict}<{ityp}>{{*pr}}, {acc});'
        conn.append(f'      if ({cond}) {{ auto pr = std::make_unique<{ityp}>(dzn::port::meta{meta}); {sets} {tie} '
                    f'peers_{prt["name"]}[client] = std::move(pr); }}')
    out.append('\n'.join(peers))
    out.append('static void reset_peers() { ' + ' '.join(f'peers_{p["name"]}.clear();' for p in info.ports if p['exposed']) + ' }')
    disp.append('    else if (cmd == "connect") { std::string port, client; in >> port >> client; if (client == "-") client = ""; int n = 0; try {\n' +
                '\n'.join(conn) + '\n      res = std::string("{\\"ok\\":true,\\"n\\":") + std::to_string(n) + "}"; } CATCH_ALL(res) }')
    disp.append('    else if (cmd == "bind" || cmd == "unbind") { bool on = cmd == "bind"; std::string port, event, client; in >> port >> event >> client; '
                'if (client == "-") client = ""; int n = 0; try {\n' + '\n'.join(bind_lines) +
                '\n      res = std::string("{\\"ok\\":true,\\"n\\":") + std::to_string(n) + "}"; } CATCH_ALL(res) }')
    # unbind a handler of the component itself
    ub = []
    for prt in info.ports:
        for evt in prt['itf']['events']:
            mine = (prt['dir'] == 'provides' and evt['dir'] == 'in') or (prt['dir'] == 'requires' and evt['dir'] == 'out')
            if mine:
                ub.append(f'      if (port == "{prt["name"]}" && event == "{evt["name"]}") {{ {comp}::last()->{prt["name"]}.{evt["dir"]}.{evt["name"]} = nullptr; n++; }}')
    disp.append('    else if (cmd == "unbind-comp") { std::string port, event; in >> port >> event; int n = 0;\n' + '\n'.join(ub) +
                '\n      res = std::string("{\\"ok\\":true,\\"n\\":") + std::to_string(n) + "}"; }')
    # register a client
    reg = [f'      sh->{info.accessor(p)}(id); n++;' for p in info.ports if p['mc']]
    disp.append('    else if (cmd == "register") { std::string id; in >> id; int n = 0; try {\n' + '\n'.join(reg) +
                '\n      res = std::string("{\\"ok\\":true,\\"n\\":") + std::to_string(n) + "}"; } CATCH_ALL(res) }')
    # identities of accessor ports
    ident = []
    for prt in info.ports:
        if prt['exposed'] and not prt['mc']:
            ident.append(f'      o << (first ? "" : ",") << "\\"{prt["name"]}\\":" << (&sh->{info.accessor(prt)}().port == &{comp}::last()->{prt["name"]} ? "true" : "false"); first = false;')
    disp.append('    else if (cmd == "probe") { std::ostringstream o; bool first = true; o << "{\\"ok\\":true,\\"same_object\\":{";\n' +
                '\n'.join(ident) + '\n      o << "}}"; res = o.str(); }')
    # calls from outside: call (client on provides port), raise (peer on requires port)
    calls = []
    for prt in info.ports:
        if not prt['exposed']:
            continue
        for evt in prt['itf']['events']:
            outside = (prt['dir'] == 'provides' and evt['dir'] == 'in') or (prt['dir'] == 'requires' and evt['dir'] == 'out')
            if not outside:
                continue
            acc = f'sh->{info.accessor(prt)}(client).port' if prt['mc'] else f'sh->{info.accessor(prt)}().port'
            peer = f'peers_{prt["name"]}'
            calls.append(f'      if (port == "{prt["name"]}" && event == "{evt["name"]}") {{ found = true; '
                         f'spawn(who, [=]() -> std::string {{ auto pit = {peer}.find(client); '
                         f'auto& p = pit != {peer}.end() ? *pit->second : {acc}; {call_code(info, prt, evt, "p")} }}); }}')
    disp.append('    else if (cmd == "call" || cmd == "raise") { std::string who, port, client, event; in >> who >> port >> client >> event; '
                'if (client == "-") client = ""; std::vector<int> a; int v; while (in >> v) a.push_back(v); bool found = false;\n' +
                '\n'.join(calls) + '\n      res = found ? "{\\"ok\\":true}" : "{\\"ok\\":false,\\"what\\":\\"no such event\\"}"; }')
    # calls from inside: the component raises an out-event on a provides port / calls an in-event on a requires port
    inner = []
    for prt in info.ports:
        for evt in prt['itf']['events']:
            inside = (prt['dir'] == 'provides' and evt['dir'] == 'out') or (prt['dir'] == 'requires' and evt['dir'] == 'in')
            if not inside:
                continue
            inner.append(f'      if (port == "{prt["name"]}" && event == "{evt["name"]}") {{ found = true; '
                         f'auto body = [=]() -> std::string {{ auto& p = {comp}::last()->{prt["name"]}; {call_code(info, prt, evt, "p")} }}; '
                         'if (who == "main") { try { res = body(); } CATCH_ALL(res) } else { spawn(who, body); res = "{\\"ok\\":true}"; } }')
    disp.append('    else if (cmd == "comp") { std::string who, port, event; in >> who >> port >> event; std::vector<int> a; int v; '
                'while (in >> v) a.push_back(v); bool found = false;\n' + '\n'.join(inner) +
                '\n      if (!found) res = "{\\"ok\\":false,\\"what\\":\\"no such event\\"}"; }')
    mcp = next((p for p in info.ports if p['mc']), None)
    if mcp is not None:
        itf = mcp['itf']
        claim = next(e for e in itf['events'] if e['name'] == info.mc['claim'])
        release = next(e for e in itf['events'] if e['name'] == info.mc['release'])
        outev = next((e for e in itf['events'] if e['dir'] == 'out'), None)

        def direct_call(evt, port_expr, tag):
            decl, args = [], []
            for i, frm in enumerate(evt['formals']):
                typ = base_type(info.formal_cpp(itf, frm))
                decl.append(f'{typ} {tag}{i} = verif::mk<{typ}>(1);')
                args.append(f'{tag}{i}')
            return ' '.join(decl), f'{port_expr}.{evt["dir"]}.{evt["name"]}({", ".join(args)})'
        cdecl, ccall = direct_call(claim, 'p', 'c')
        rdecl, rcall = direct_call(release, 'p', 'r')
        raise_code = ''
        if outev is not None:
            odecl, ocall = direct_call(outev, f'{comp}::last()->{mcp["name"]}', 'o')
            raise_code = (f'ts.emplace_back([=] {{ for (int i = 0; i < iters * 2; ++i) {{ the_pump()->operator()([] {{ {odecl} {ocall}; }}); '
                          'std::this_thread::yield(); } });')
        disp.append('    else if (cmd == "stress") { int iters; in >> iters; int grant; in >> grant; '
                    f'auto ids = sh->Get{cap(mcp["name"])}ClientIdentifiers(); std::vector<std::thread> ts; std::atomic<int> granted{{0}}; '
                    'for (auto id : ids) ts.emplace_back([=, &granted] { verif::tname = "stress-" + id; for (int i = 0; i < iters; ++i) { '
                    f'auto& p = sh->{info.accessor(mcp)}(id).port; {cdecl} {rdecl} '
                    f'if (static_cast<int>({ccall}) == grant) {{ ++granted; {rcall}; }} }} }}); '
                    f'{raise_code} for (auto& t : ts) t.join(); '
                    'for (int k = 0; k < 2000 && the_pump()->queued() > 0; ++k) std::this_thread::sleep_for(std::chrono::milliseconds(1)); '
                    'res = std::string("{\\"ok\\":true,\\"granted\\":") + std::to_string(granted.load()) + ",\\"clients\\":" + std::to_string(ids.size()) + "}"; }')
    out.append(DRIVER_MAIN.replace('SHELL', info.shell_fqn).replace('COMP', comp).replace('CTORARGS', ctor)
               .replace('DISPATCH', '\n'.join(disp)))
    return '\n'.join(out)


def route_json(info):
    return json.dumps(info.route())
