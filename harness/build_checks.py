"""C07 (names denote what scoping selects) and C13 (complete result or diagnosed error)."""
import json
import random
import re
import signal

from . import core, dzn, model, shell
from .parser_checks import replay_parallel, _quiet, rand_doc

KIND_OF = {'Component': 'component', 'Enum': 'enum', 'Extern': 'extern', 'Foreign': 'foreign',
           'Interface': 'interface', 'SubInt': 'subint', 'System': 'system'}


class Hang(Exception):
    pass


def _alarm(_sig, _frm):
    raise Hang()


def build_model(decls, cfg, record_lookups=False, desc_over=None):
    """Parse + configure + build with a watchdog.  Returns (staged, lookups)."""
    core.repo_guard()
    fct = shell.parse(model.decls_to_tokens(decls))
    lookups = []
    undo = []
    if record_lookups:
        import sys  # pylint: disable=import-outside-toplevel
        import dznpy.adv_shell  # noqa: F401  pylint: disable=import-outside-toplevel,unused-import
        from dznpy import ast_view  # pylint: disable=import-outside-toplevel
        env = [{'kind': KIND_OF[type(x).__name__], 'fqn': list(x.fqn.items)}
               for cont in (fct.components, fct.enums, fct.externs, fct.foreigns, fct.interfaces, fct.subints, fct.systems)
               for x in cont]
        # every loaded dznpy module that imported the lookup function by name (wherever the builder's code lives)
        users = [m for n, m in list(sys.modules.items()) if n.startswith('dznpy') and m is not None
                 and getattr(m, 'find_fqn', None) is ast_view.find_fqn and m is not ast_view]
        for mod in users:
            orig = mod.find_fqn

            def wrapper(fc_, ns_ids, inner=None, _orig=orig):
                res = _orig(fc_, ns_ids, inner)
                lookups.append({'op': 'find_fqn', 'decls': env, 'name': list(ns_ids.items),
                                'scope': list(inner.items) if inner is not None else [],
                                'obs': [{'kind': KIND_OF[type(x).__name__], 'fqn': list(x.fqn.items)} for x in res.items]})
                return res
            mod.find_fqn = wrapper
            undo.append((mod, orig))
    old = signal.signal(signal.SIGALRM, _alarm)
    signal.alarm(30)
    try:
        stg = _quiet(shell.staged_build, model.cfg_to_desc(cfg, **(desc_over or {})), fct)
    except Hang:
        stg = shell.Staged()
        stg.stage, stg.exc, stg.diagnosed = 'build', Hang('build did not return within 30 s'), False
    finally:
        signal.alarm(0)
        signal.signal(signal.SIGALRM, old)
        for mod, orig in undo:
            mod.find_fqn = orig
    return stg, lookups


def family(stg):
    """'' on success; 'library' | 'worded' | 'internal' for failures."""
    if stg.ok:
        return ''
    if isinstance(stg.exc, Hang):
        return 'internal'
    name = stg.exc_name
    # one of the library's own error types: a class defined by dznpy (whatever it is called), raised by dznpy
    if stg.diagnosed and (name in shell.LIB_ERRORS or type(stg.exc).__module__.split('.')[0] == 'dznpy'):
        return 'library'
    if stg.diagnosed and name in ('ValueError', 'TypeError') and str(stg.exc).strip():
        return 'worded'
    return 'internal'


def expected_files(cfg):
    pre = '_'.join(list(cfg.get('prefix') or []) + ['Dzn'])
    base = cfg.get('base', 'M') + cfg.get('suffix', 'Shell')
    return [base + '.hh', base + '.cc'] + [f'{pre}_{n}.hh' for n in
                                            ('StrictPort', 'ILog', 'MiscUtils', 'MetaHelpers', 'MultiClientSelector',
                                             'MutexWrapped')]


def bound_of(case, stg):
    """What the generated shell actually refers to at the site under test."""
    mode = case['mode']
    hdr, src = stg.result.files[0].contents, stg.result.files[1].contents
    try:
        rec = stg.builder._recipe  # pylint: disable=protected-access
        if mode == 'port-type':
            return {'fqn': list(rec.dzn_elements.provides_ports[0].interface.fqn.items)}
        if mode == 'claim-enum':
            return {'fqn': list(rec.dzn_elements.provides_ports[0].multiclient.claim_granting_reply.items)[:-1]}
    except AttributeError:
        # the private recipe is gone: read the binding from the generated text instead
        if mode == 'port-type':
            mat = re.search(r'::(?:Sts|Mts)<::([\w:]+)>\s+ProvidesP\(', hdr)
            return {'fqn': mat.group(1).split('::') if mat else None}
        if mode == 'claim-enum':
            mat = re.search(r'if \(r == ::([\w:]+)::\w+\)', src)
            return {'fqn': mat.group(1).split('::') if mat else None}
    # format independent: every extern of the environment has a unique C++ text t_<scope>; the generated source must
    # mention exactly the texts of the externs the parameter types are bound to
    src = stg.result.files[1].contents
    return {'cpp_tags': sorted(set(re.findall(r'\bt_[A-Za-z]+\b', src)))}


def replay_c07_case(case):
    try:
        stg, _ = build_model(case['decls'], case['cfg'])
    except Exception as exc:  # pylint: disable=broad-except
        return [('harness-visible exception', None, f'{type(exc).__name__}: {exc}')]
    bad = []
    fam = family(stg)
    if case['site'] == 'ok' and case['site2'] == 'ok':
        if not stg.ok:
            return [('reference resolves to exactly one declaration, build must succeed', case['bound'],
                     f'{stg.exc_name}: {stg.exc}')]
        got = bound_of(case, stg)
        if case['mode'] == 'formal-type':
            exp = sorted({case['bound']['cpp'], case['bound2']['cpp']})
            if got['cpp_tags'] != exp:
                bad.append(('C++ types of the event parameters used in the generated source (interface I / interface C.J)',
                            exp, got['cpp_tags']))
        elif got['fqn'] is not None and got['fqn'] != case['bound']['fqn']:
            bad.append(('declaration the name is bound to', case['bound']['fqn'], got['fqn']))
    else:
        if stg.ok:
            got = bound_of(case, stg)
            bad.append((f'reference is {case["site"]}/{case["site2"]} on the scope chain: build must fail, not pick one',
                        'error', got))
        elif fam == 'internal':
            bad.append((f'reference is {case["site"]}: build must fail with a library error', 'FindError/AdvShellError',
                        f'{stg.exc_name}: {stg.exc}'))
    return bad


def replay_c13_case(case):
    try:
        stg, _ = build_model(case['decls'], case['cfg'])
    except Exception as exc:  # pylint: disable=broad-except
        return [('harness-visible exception', None, f'{type(exc).__name__}: {exc}')]
    bad = []
    fam = family(stg)
    must_ok = case['outcome']['ok'] and not case['rejectedAtConfig']
    if fam == 'internal':
        return [(f'internal error (fault {case["fault"]})', case['outcome'], f'{stg.exc_name}: {str(stg.exc)[:200]} at {stg.stage}')]
    if must_ok:
        if not stg.ok:
            bad.append((f'valid input must build (fault {case["fault"]})', 'ok', f'{stg.exc_name}: {stg.exc}'))
        else:
            names = [g.filename for g in stg.result.files]
            # header, source and six support files (the exact naming scheme is not part of the property)
            if len(names) != 8 or len(set(names)) != 8 or not any(n.endswith('.cc') for n in names) or \
                    sum(1 for n in names if n.endswith('.hh')) != 7:
                bad.append(('file set: shell header, shell source and six support headers', expected_files(case['cfg']), names))
            if any(not isinstance(g.contents, str) or not g.contents.strip() for g in stg.result.files):
                bad.append(('every file has contents', True, False))
    else:
        if stg.ok:
            bad.append((f'invalid input must fail (fault {case["fault"]}, model: {case["outcome"]["kind"] or "config"})',
                        'error', [g.filename for g in stg.result.files]))
        elif stg.result is not None:
            bad.append(('failed build returned files', None, 'files'))
    return bad


FILE_NAMES = ['.dzn', 'models/.scratch.dzn', 'M', 'M.dzn.json', 'a b.dzn', 'M..dzn', 'dir.d/M.dzn', 'M.DZN', '...', 'm\u00e9.dzn']


def replay_c13_filenames(case):
    """The valid members of the family, built for unusual Dezyne file names: a complete result or a diagnosed error,
    never an internal error or a hang (what the output files are called is not judged)."""
    bad = []
    for fname in FILE_NAMES:
        try:
            stg, _ = build_model(case['decls'], case['cfg'], desc_over={'file': fname})
        except Exception as exc:  # pylint: disable=broad-except
            return [('harness-visible exception', None, f'{type(exc).__name__}: {exc}')]
        fam = family(stg)
        if fam == 'internal':
            bad.append((f'dezyne file name {fname!r}: internal error or hang', 'files or a diagnosed error',
                        f'{stg.exc_name}: {str(stg.exc)[:160]}'))
        elif stg.ok and len({g.filename for g in stg.result.files}) != 8:
            bad.append((f'dezyne file name {fname!r}: complete result', 8, [g.filename for g in stg.result.files]))
    return bad


def rand_cfg_for(rng, decls):
    comps = [d for d in decls if d['kind'] in ('component', 'system')]
    others = [d for d in decls if d['kind'] not in ('component', 'system')]
    if comps and rng.random() < 0.9:
        enc = rng.choice(comps)
    elif others:
        enc = rng.choice(others)
    else:
        enc = {'fqn': ['Nope'], 'ports': []}
    prov = [p['name'] for p in enc.get('ports', []) if p['dir'] == 'provides']
    reqs = [p['name'] for p in enc.get('ports', []) if p['dir'] == 'requires']

    def psc(names, mixed_ok):
        r = rng.random()
        if r < 0.3:
            return {'sts': shell.ALL, 'mts': shell.NONE}
        if r < 0.6:
            return {'sts': shell.NONE, 'mts': shell.ALL}
        pick = rng.sample(names, rng.randint(1, len(names))) if names else ['zz']
        if rng.random() < 0.1:
            pick.append('zz')
        if mixed_ok and rng.random() < 0.5:
            return {'sts': shell.sel('SET', pick), 'mts': rng.choice([shell.REMAINING, shell.NONE])}
        return {'sts': shell.NONE, 'mts': shell.sel('SET', pick)} if rng.random() < 0.5 else \
            {'sts': shell.sel('SET', pick), 'mts': shell.NONE}
    mcc = {'on': False, 'port': '', 'claim': '', 'grant': ['x'], 'release': ''}
    if prov and rng.random() < 0.3:
        mcc = {'on': True, 'port': rng.choice(prov + ['zz']) if rng.random() < 0.9 else 'r0',
               'claim': rng.choice(['E0', 'E1', 'Claim']), 'grant': [rng.choice(['F0', 'F1', 'Ok'])],
               'release': rng.choice(['E0', 'E1', 'E2'])}
    return {'enc': enc['fqn'], 'prov': psc(prov, False), 'req': psc(reqs, True), 'mc': mcc, 'origin': rng.choice(['create', 'import']),
            'prefix': rng.choice([[], [], ['My'], ['My', 'Lib']]), 'suffix': rng.choice(['Shell', 'AdvShell']), 'base': 'M'}


def record_build_trace(rng, tid):
    events = []
    for _ in range(3):
        tokens = [t for t in rand_doc(rng, 16) if t['t'] not in ('skip', 'broken')]
        decls = model.tokens_to_decls(tokens)
        cfg = rand_cfg_for(rng, decls)
        stg, _ = build_model(decls, cfg)
        events.append({'decls': decls, 'cfg': cfg, 'scan': False, 'wiring': [],
                       'obs': {'ok': stg.ok, 'stage': 'config' if stg.stage != 'build' else 'build',
                               'family': family(stg), 'files': len(stg.result.files) if stg.ok else 0,
                               'exc': f'{stg.exc_name}: {str(stg.exc)[:160]}' if not stg.ok else ''}})
    return {'id': tid, 'events': events}


def validate_build_traces(chk, traces, label):
    rejected = core.validate_traces(chk, 'ShellTrace', 'ShellTrace.cfg', traces)
    for num, (trace, pos) in enumerate(rejected[:8]):
        exp = core.explain_trace('ShellTrace', 'ShellTrace.cfg', trace, pos) if num < 3 else '<not computed>'
        evt = trace['events'][pos - 1]
        chk.violation(f'{label}: build outcome {evt["obs"]} is not what ShellStructure.tla prescribes ({exp})',
                      {'event': evt, 'model': exp, 'spec': 'ShellTrace.tla'})


def check_c13(tier, seed):
    chk = core.Check('C13', tier, seed)
    core.repo_guard()
    chk.rule = ('TLC evaluates BuildOutcome (ShellStructure.tla) on a family of 28 valid (model, configuration) pairs '
                '(component in global/namespaced scope, with/without injected port, 5 port-semantics configurations, '
                'multi-client on/off) and on every single-fault variation (24 fault kinds: encapsulee, port type, port '
                'selection, multi-client settings, formal types); C13Law is a TLC invariant; each case is built with the '
                'real Builder under a 30 s watchdog and success/failure, exception family (raised by a raise statement in '
                'dznpy with a library error type) and the exact file set are compared. Random models x random '
                'configurations are validated by ShellTrace.tla. Fault kinds added later: empty encapsulee name, ambiguity through an enclosing scope or an interface-local extern, empty multi-client settings, a release event that is an out-event or the claim event; the fault-free members are also built for unusual Dezyne file names (no hang, no internal error).')
    res = chk.tlc('ShellCases', 'ShellCases_faults.cfg')
    cases = res.emitted()
    chk.sample({k: cases[10][k] for k in ('fault', 'base', 'outcome', 'cfg')})
    replay_parallel(chk, cases, replay_c13_case, 'faults', lambda c: json.dumps([c['base'], c['fault']], sort_keys=True))
    plain = [c for c in cases if c['fault'] == 'none'][::6]
    replay_parallel(chk, plain, replay_c13_filenames, 'file names', lambda c: json.dumps(['file-names', c['base']], sort_keys=True))
    chk.traces += len(cases)
    rng = random.Random(seed + 13)
    traces = [record_build_trace(rng, f'b{seed}-{i}') for i in range(400 if tier == 'quick' else 6000)]
    chk.sample({'recorded_event': {k: traces[0]['events'][0][k] for k in ('cfg', 'obs')}})
    validate_build_traces(chk, traces, 'random model/configuration')
    for trc in traces:
        for k in range(len(trc['events'])):
            chk.count(('trace', trc['id'], k))
    chk.exhaustive = True
    chk.assumptions = ['a failure counts as diagnosed iff the last traceback frame is a `raise` statement under '
                       '<repo>/src/dznpy and the type is one of the library errors, or a ValueError/TypeError with a '
                       'message raised deliberately by dznpy (lenient reading, e.g. multi-client on an STS port)',
                       'Dezyne well-formedness of generated models is not assumed: ill-formed models are the invalid inputs']
    return chk.finish()


def compiled_binding(chk, tier, seed):
    """The binding as a C++ compiler sees it: models in which a same-named declaration shadows the selected one for C++
    name lookup but not for Dezyne (decoy interface A.B.A.I0 next to A.I0 referred to from A.B; same-named externs and
    interfaces in sibling namespaces) are generated, and compiled against a model header in which every declaration is a
    distinct, non-convertible C++ type, with static_asserts on the accessor types."""
    from . import cxx, runtime_checks  # pylint: disable=import-outside-toplevel
    rng = random.Random(seed * 31 + 7)
    progs = []
    for k in range(8 if tier == 'quick' else 40):
        decls, cfg, _ = runtime_checks.gen_model(rng, want_mc=(k % 2 == 0), shadow=(k % 4 != 3), clash=(k % 4 == 3))
        if k % 4 == 1:
            # an injected requires port declared FIRST, of another interface than the port that follows it: injected
            # ports are not exposed, the ports after it must keep their own interface types
            from . import model as _model  # pylint: disable=import-outside-toplevel
            comp = decls[-1]
            decls.insert(len(decls) - 1, _model.new_decl('interface', ['InjNs', 'IInj'], events=[
                {'name': 'Poke', 'dir': 'in', 'reply': ['void'], 'formals': []},
                {'name': 'Poked', 'dir': 'out', 'reply': ['void'], 'formals': []}]))
            comp['ports'].insert(0, {'name': 'inj0', 'type': ['InjNs', 'IInj'], 'dir': 'requires', 'inj': True})
        prog = cxx.Program(decls, cfg)
        try:
            if prog.generate():
                progs.append(prog)
        except AssertionError:
            continue
    for prog, okay in zip(progs, cxx.compile_many(progs)):
        chk.count(('compiled-binding', json.dumps(prog.cfg, sort_keys=True), len(progs)))
        chk.programs = getattr(chk, 'programs', 0) + 1
        if not okay:
            err = prog.error or ''
            first = next((ln for ln in err.splitlines() if 'error' in ln), err[:200])
            chk.violation('a name in the generated shell denotes another declaration than the one Dezyne\'s scoping selects '
                          f'(or none): the shell does not compile against the type-distinct model header: {first[:300]}',
                          {'decls': prog.decls, 'cfg': prog.cfg, 'compiler_output': err[:3000]}, {'kind': 'compiled-binding'})


def check_c07(tier, seed):
    chk = core.Check('C07', tier, seed)
    core.repo_guard()
    chk.rule = ('TLC enumerates, for each referring site (port type from the encapsulee scope, event-parameter type from '
                'the interface scope, claim-reply enum from the interface scope), every non-empty subset of the scopes '
                '{global, A, A.B, C (+ nested in the interface)} that declare the name, an optional same-named declaration '
                'of another kind, every spelling (simple, partially, fully qualified, via a sibling) and every referring '
                'scope; C07Law (build ok iff exactly one declaration of the right kind on the chain) is a TLC invariant; '
                'each case is built and the declaration the generated shell is bound to compared with the model. All '
                'find_fqn calls made by the builder are validated by ScopingTrace.tla. Shadowing shapes (decoy interface A.B.A.I0, same-named externs/interfaces in sibling namespaces, an injected port declared first) are compiled against a type-distinct model header with static_asserts on the accessor types.')
    lookups_all = []
    for mode in ('port-type', 'formal-type', 'claim-enum'):
        res = chk.tlc('ShellCases', f'ShellCases_{mode}.cfg')
        cases = res.emitted()
        chk.sample({k: cases[len(cases) // 3][k] for k in ('mode', 'site', 'bound', 'cfg')})
        replay_parallel(chk, cases, replay_c07_case, mode, lambda c: json.dumps([c['decls'], c['cfg']['enc']], sort_keys=True))
        chk.traces += len(cases)
        rng = random.Random(seed + 7)
        for case in rng.sample(cases, 150 if tier == 'quick' else len(cases)):
            _, lk = build_model(case['decls'], case['cfg'], record_lookups=True)
            if lk:
                lookups_all.append({'id': f'{mode}-{len(lookups_all)}', 'events': lk})
    from .parser_checks import report_rejections  # pylint: disable=import-outside-toplevel
    report_rejections(chk, 'ScopingTrace', 'ScopingTrace.cfg', lookups_all, 'lookups made by Builder.build')
    compiled_binding(chk, tier, seed)
    chk.exhaustive = True
    chk.assumptions = ['the binding of the enumerated cases is read from Builder._recipe (or the generated text) and from the '
                       'extern tags in the generated source; the C++-level binding is compiled for the shadowing shapes only']
    return chk.finish()
