"""Shared machinery of the /verif checks: repo import guard, scratch space, TLC runner,
verdict/evidence bookkeeping and the known-findings matcher.

Every check is `Check(pid, tier, seed)`; it collects TLC statistics, replayed cases, validated traces,
violations (with a replay file each) and writes evidence/<pid>.json when it finishes.
Exit codes: 0 held, 1 violation (VIOLATION line printed), 2 machinery failure.
"""
import atexit
import json
import os
import re
import shutil
import subprocess
import sys
import tempfile
import time
import traceback

VERIF = os.path.dirname(os.path.dirname(os.path.abspath(__file__)))
REPO = os.environ.get('VERIF_REPO', '/repo')
SPEC = os.path.join(VERIF, 'spec')
NCPU = os.cpu_count() or 4


class MachineryError(Exception):
    """Something in the verification machinery failed (never a verdict about dznpy)."""


def repo_guard():
    """Put <repo>/src first on sys.path and make sure `dznpy` is imported from there."""
    src = os.path.join(REPO, 'src')
    if sys.path[0] != src:
        sys.path.insert(0, src)
    for name in [m for m in sys.modules if m == 'dznpy' or m.startswith('dznpy.')]:
        mod = sys.modules[name]
        if not getattr(mod, '__file__', '').startswith(src):
            del sys.modules[name]
    import dznpy  # pylint: disable=import-outside-toplevel
    if not os.path.abspath(dznpy.__file__).startswith(src + os.sep):
        raise MachineryError(f'dznpy imported from {dznpy.__file__}, expected under {src}')
    return dznpy


def repo_state():
    """HEAD and dirty flag of the repository under test."""
    try:
        head = subprocess.run(['git', '-C', REPO, 'rev-parse', 'HEAD'], capture_output=True,
                              text=True, check=False).stdout.strip()
        dirty = bool(subprocess.run(['git', '-C', REPO, 'status', '--porcelain', '--', 'src'],
                                    capture_output=True, text=True, check=False).stdout.strip())
    except OSError:
        head, dirty = '?', False
    return {'head': head, 'dirty': dirty}


_SCRATCH = None


def scratch():
    """A per-process scratch directory (outside /tmp, removed at exit)."""
    global _SCRATCH  # pylint: disable=global-statement
    if _SCRATCH is None:
        base = os.environ.get('VERIF_SCRATCH', '/var/tmp')
        os.makedirs(base, exist_ok=True)
        _SCRATCH = tempfile.mkdtemp(prefix='verif-', dir=base)
        atexit.register(shutil.rmtree, _SCRATCH, True)
    return _SCRATCH


def subdir(name):
    path = os.path.join(scratch(), name)
    os.makedirs(path, exist_ok=True)
    return path


# ----------------------------------------------------------------------------------------------
# TLC
# ----------------------------------------------------------------------------------------------

TLC_JAR = '/opt/veriftools/tla/tla2tools.jar:/opt/veriftools/tla/CommunityModules-deps.jar'
_STATS = re.compile(r'(\d+) states generated, (\d+) distinct states found')


class TlcResult:
    def __init__(self, out, rc, wall):
        self.out = out
        self.rc = rc
        self.wall = wall
        m = _STATS.findall(out)
        self.generated = int(m[-1][0]) if m else 0
        self.distinct = int(m[-1][1]) if m else 0
        self.ok = 'Model checking completed. No error has been found.' in out or \
                  ('Finished in' in out and 'Error:' not in out and rc == 0)
        self.invariant_violated = re.findall(r'Invariant (\S+) is violated', out)
        self.property_violated = 'Temporal properties were violated' in out or \
                                 re.findall(r'Action property (\S+) is violated', out) != []
        self.deadlock = 'Deadlock reached' in out

    def emitted(self):
        """JSON values printed with PrintT(ToJson(x)) - one quoted JSON string per line."""
        res = []
        for line in self.out.splitlines():
            if line.startswith('"{') or line.startswith('"['):
                try:
                    res.append(json.loads(json.loads(line)))
                except ValueError:
                    continue
        return res

    def printed_tuples(self, tag):
        """Lines printed with PrintT(<<"TAG", ...>>)."""
        return [ln for ln in self.out.splitlines() if ln.startswith(f'<<"{tag}"')]

    def coverage_zero(self):
        """Actions whose coverage count is zero (with -coverage)."""
        return re.findall(r'<(\w+) line \d+, col \d+ to line \d+, col \d+ of module \w+>: 0:0', self.out)


def run_tlc(module, cfg, workers=None, env=None, extra=(), timeout=1800, spec_dir=SPEC,
            simulate=None, depth=None, coverage=False, dump_dot=None, deadlock=True, seed=None):
    """Run TLC on spec/<module>.tla with spec/<cfg> and return a TlcResult."""
    meta = tempfile.mkdtemp(prefix='tlc-', dir=scratch())
    cmd = ['java', '-XX:+UseParallelGC', '-Xss16m', '-cp', TLC_JAR]
    if env and env.get('JAVA_PROPS'):
        cmd += env.pop('JAVA_PROPS')
    cmd += ['tlc2.TLC', '-metadir', meta, '-noGenerateSpecTE', '-config', cfg]
    if simulate:
        cmd += ['-simulate', simulate]
        if depth:
            cmd += ['-depth', str(depth)]
    cmd += ['-workers', str(workers or min(NCPU, 16))]
    if coverage:
        cmd += ['-coverage', '1']
    if not deadlock:
        cmd += ['-deadlock']
    if dump_dot:
        cmd += ['-dump', 'dot,actionlabels', dump_dot]
    if seed is not None:
        cmd += ['-seed', str(seed)]
    cmd += list(extra) + [module]
    full_env = dict(os.environ)
    full_env.pop('JAVA_TOOL_OPTIONS', None)
    if env:
        full_env.update(env)
    t0 = time.time()
    try:
        proc = subprocess.run(cmd, cwd=spec_dir, capture_output=True, text=True, env=full_env,
                              timeout=timeout, check=False)
    except subprocess.TimeoutExpired as exc:
        raise MachineryError(f'TLC timeout after {timeout}s: {module} {cfg}') from exc
    finally:
        shutil.rmtree(meta, True)
    return TlcResult(proc.stdout + proc.stderr, proc.returncode, time.time() - t0)


# ----------------------------------------------------------------------------------------------
# known findings
# ----------------------------------------------------------------------------------------------

def load_known_findings():
    path = os.path.join(VERIF, 'known_findings.json')
    if not os.path.exists(path):
        return {'findings': [], 'fixed': []}
    with open(path, encoding='utf-8') as fil:
        return json.load(fil)


# ----------------------------------------------------------------------------------------------
# Check bookkeeping
# ----------------------------------------------------------------------------------------------

class Check:
    """Bookkeeping of one check run."""

    def __init__(self, pid, tier, seed, level='model_checking'):
        self.pid = pid
        self.tier = tier
        self.seed = seed
        self.level = level
        self.t0 = time.time()
        self.states = 0
        self.transitions = 0
        self.traces = 0
        self.evaluations = 0
        self.distinct = set()
        self.programs = 0
        self.disagreements_checked = 0
        self.samples = []
        self.violations = []
        self.known_hits = []
        self.notes = []
        self.assumptions = []
        self.trusted = []
        self.extra = {}
        self.exhaustive = None
        self.rule = ''
        self.tlc_runs = []
        self.known = [f for f in load_known_findings().get('findings', []) if f.get('property') == pid]
        rdir = os.path.join(VERIF, 'replays', pid)
        if os.path.isdir(rdir):                  # replay files of earlier runs of this check and tier are stale
            tag = '' if REPO == '/repo' else f'mut{os.getpid()}-'
            for name in os.listdir(rdir):
                if name.startswith(f'{tag}{tier}-') or (REPO == '/repo' and name.startswith('mut')):
                    try:
                        os.unlink(os.path.join(rdir, name))
                    except FileNotFoundError:       # another run of the same check removed it
                        pass
        self._known_printed = set()

    # -- TLC -----------------------------------------------------------------------------------
    def tlc(self, module, cfg, must_hold=True, **kw):
        """Run TLC; a violated spec invariant is a machinery failure unless must_hold=False."""
        res = run_tlc(module, cfg, **kw)
        self.states += res.distinct
        self.transitions += res.generated
        self.tlc_runs.append({'module': module, 'cfg': cfg, 'generated': res.generated,
                              'distinct': res.distinct, 'wall_s': round(res.wall, 2)})
        if must_hold and not res.ok:
            tail = '\n'.join(res.out.splitlines()[-40:])
            raise MachineryError(f'TLC run {module}/{cfg} did not complete cleanly '
                                 f'(a spec-level property failed or TLC crashed):\n{tail}')
        return res

    # -- cases ---------------------------------------------------------------------------------
    def sample(self, item, limit=4):
        if len(self.samples) < limit:
            self.samples.append(item)

    def count(self, key=None, n=1):
        self.evaluations += n
        if key is not None:
            self.distinct.add(key)

    # -- verdicts ------------------------------------------------------------------------------
    def match_known(self, signature):
        """Return the known finding whose signature matches, or None."""
        for fnd in self.known:
            sig = fnd.get('signature', {})
            if all(signature.get(k) == v for k, v in sig.items()):
                return fnd
        return None

    def violation(self, what, replay, signature=None):
        """Report a disagreement; suppressed (printed as KNOWN-FINDING) only if listed."""
        if signature is not None:
            fnd = self.match_known(signature)
            if fnd is not None:
                if fnd['id'] not in self._known_printed:
                    self._known_printed.add(fnd['id'])
                    print(f'KNOWN-FINDING: property={self.pid} {fnd["id"]}: {fnd["what"]}', flush=True)
                self.known_hits.append(fnd['id'])
                return
        if len(self.violations) >= 25:
            self.violations.append(None)
            return
        rdir = os.path.join(VERIF, 'replays', self.pid)
        os.makedirs(rdir, exist_ok=True)
        tag = '' if REPO == '/repo' else f'mut{os.getpid()}-'
        path = os.path.join(rdir, f'{tag}{self.tier}-{len(self.violations):03d}.json')
        doc = {'property': self.pid, 'what': what, 'repo': repo_state(), 'tier': self.tier,
               'seed': self.seed, 'replay': replay,
               'command': f'./check {self.pid} --replay {path}'}
        with open(path, 'w', encoding='utf-8') as fil:
            json.dump(doc, fil, indent=1, default=str)
        self.violations.append(path)
        print(f'VIOLATION property={self.pid} replay={path}', flush=True)
        print(f'  {what}'[:600], flush=True)

    def saturated(self):
        return len(self.violations) >= 25

    def finish(self):
        nviol = len(self.violations)
        cov = {
            'states': self.states,
            'transitions': self.transitions,
            'traces_validated_against_impl': self.traces,
            'samples': self.samples or ['<none>'],
            'evaluations': self.evaluations,
            'distinct_nontrivial': len(self.distinct),
            'rule': self.rule,
            'programs': self.programs,
            'disagreements_checked': self.disagreements_checked,
            'tlc_runs': self.tlc_runs,
            'known_findings_hit': sorted(set(self.known_hits)),
            'trusted_base': self.trusted,
            'notes': self.notes,
            'repo': repo_state(),
        }
        if self.exhaustive is not None:
            cov['exhaustive'] = bool(self.exhaustive)
        cov.update(self.extra)
        doc = {'property_id': self.pid, 'tier': self.tier, 'seed': int(self.seed), 'level': self.level,
               'coverage': cov, 'assumptions': self.assumptions,
               'wall_s': round(time.time() - self.t0, 2), 'violations': nviol}
        evdir = os.path.join(VERIF, 'evidence') if REPO == '/repo' else subdir('evidence-other-repo')
        os.makedirs(evdir, exist_ok=True)
        with open(os.path.join(evdir, f'{self.pid}.json'), 'w', encoding='utf-8') as fil:
            json.dump(doc, fil, indent=1, default=str)
        print(f'[{self.pid}] tier={self.tier} states={self.states} transitions={self.transitions} '
              f'traces={self.traces} evaluations={self.evaluations} distinct={len(self.distinct)} '
              f'violations={nviol} known={sorted(set(self.known_hits))} wall={doc["wall_s"]}s', flush=True)
        return 1 if nviol else 0


def main_wrapper(fn, pid, tier, seed):
    """Run a check function with the exit-code discipline."""
    try:
        repo_guard()
        return fn(tier, seed)
    except MachineryError as exc:
        print(f'MACHINERY-FAILURE property={pid}: {exc}', file=sys.stderr, flush=True)
        return 2
    except Exception:  # pylint: disable=broad-except
        traceback.print_exc()
        print(f'MACHINERY-FAILURE property={pid}: unexpected exception in the harness', file=sys.stderr)
        return 2


# ----------------------------------------------------------------------------------------------
# trace validation (code -> spec)
# ----------------------------------------------------------------------------------------------

_REJ = re.compile(r'<<"REJECTED", (.+), (\d+)>>')


def validate_traces(chk, module, cfg, traces, timeout=1800, batch=4000, env=None):
    """Validate recorded traces (dicts with 'id' and 'events') against spec/<module>.tla in
    batches; returns a list of (trace, position_of_first_unexplained_event)."""
    rejected = []
    by_id = {}
    for trc in traces:
        by_id[str(trc['id'])] = trc
    for start in range(0, len(traces), batch):
        part = traces[start:start + batch]
        path = os.path.join(scratch(), f'traces-{module}-{os.getpid()}-{start}.ndjson')
        with open(path, 'w', encoding='utf-8') as fil:
            for trc in part:
                fil.write(json.dumps(trc, separators=(',', ':')) + '\n')
        run_env = {'TRACE_FILE': path}
        run_env.update(env or {})
        res = run_tlc(module, cfg, workers=1, env=run_env, timeout=timeout)
        chk.states += res.distinct
        chk.transitions += res.generated
        chk.tlc_runs.append({'module': module, 'cfg': cfg, 'generated': res.generated,
                             'distinct': res.distinct, 'wall_s': round(res.wall, 2), 'traces': len(part)})
        if 'Error:' in res.out and 'REJECTED' not in res.out and 'Postcondition' not in res.out \
                and 'POSTCONDITION' not in res.out:
            raise MachineryError(f'trace validation with {module} crashed:\n' +
                                 '\n'.join(res.out.splitlines()[-30:]))
        if not res.distinct:
            raise MachineryError(f'trace validation with {module} explored no states:\n' +
                                 '\n'.join(res.out.splitlines()[-30:]))
        for line in res.out.splitlines():
            if line.startswith('<<"') and not line.startswith('<<"REJECTED"') and not line.startswith('<<"EXPECT"'):
                if not hasattr(chk, 'printed'):
                    chk.printed = []
                chk.printed.append(line.strip())
            mat = _REJ.match(line.strip())
            if mat:
                tid = mat.group(1).strip('"')
                rejected.append((by_id[tid], int(mat.group(2))))
        os.unlink(path)
        chk.traces += len(part) - sum(1 for r in rejected if r[0] in part)
    return rejected


def explain_trace(module, cfg, trace, pos, env=None):
    """Ask the spec what it expected at event `pos` (1-based) of a rejected trace."""
    cut = dict(trace)
    cut['events'] = trace['events'][:pos]
    path = os.path.join(scratch(), f'explain-{os.getpid()}.ndjson')
    with open(path, 'w', encoding='utf-8') as fil:
        fil.write(json.dumps(cut, separators=(',', ':')) + '\n')
    run_env = {'TRACE_FILE': path, 'EXPLAIN': '1'}
    run_env.update(env or {})
    res = run_tlc(module, cfg, workers=1, env=run_env, timeout=300)
    os.unlink(path)
    for line in res.out.splitlines():
        if line.startswith('<<"EXPECT", '):
            body = line[len('<<"EXPECT", '):-2]
            try:
                return json.loads(json.loads(body))
            except ValueError:
                return body
    return None


def failing_clause(expected, observed):
    """Name the fields in which the model's expectation and the observation differ."""
    if not isinstance(expected, dict) or not isinstance(observed, dict):
        return 'whole observation'
    return ', '.join(sorted(k for k in set(expected) | set(observed)
                            if expected.get(k) != observed.get(k))) or 'enabling condition'
