"""C11: the generated multi-client support under thread interleavings.
TLC explores MultiClientConc.tla; a state cover of its behaviours is replayed on the real compiled shell with real
threads under a cooperative scheduler (yield points: the selector's ILog callbacks, the client's out-event handler inside
the critical section); the same program runs free under ThreadSanitizer; MutexWrapped is checked with MutexWrapped.tla."""
import json
import os
import subprocess

from . import core, cxx
from .runtime_checks import fixed_models, known_h

YIELDS = 'log/ handler/user lock'        # every log line of the selector, every user handler, every lock operation
SETUP = ['construct 111', 'register A', 'register B', 'register C', 'bind * * -', 'bind * * A', 'bind * * B', 'bind * * C', 'final',
         'arbiter api Acquire Free 1 0', 'yielding 1 ' + YIELDS]


def listed(fid):
    return any(f.get('id') == fid and f.get('property') == 'C11' for f in core.load_known_findings().get('findings', []))


def plan(hist):
    """Commands for a model history and, per command, the expectation derived from the model step."""
    cmds, expect = [], []
    cur, ncall, nev, evname = {}, 0, 0, None
    for step in hist:
        act, cli = step['a'], step['c']
        if act in ('ClaimEnter', 'ReleaseEnter', 'StrayEnter'):
            ncall += 1
            thr = f't{ncall}'
            cur[cli] = thr
            cmds.append(f'call {thr} api {cli} ' + ('Acquire 7' if act == 'ClaimEnter' else 'Free'))
            expect.append({'step': step})
            cmds.append(f'run {thr} post')
            expect.append({'step': step, 'blocked_has': thr})
        elif act == 'DispatchClaimGranted':
            cmds.append('pump')
            expect.append({'step': step, 'parked_prefix': {cur[cli]: 'log/'}, 'comp_event': 'Acquire'})
        elif act == 'DispatchClaimDenied':
            cmds.append('pump')
            expect.append({'step': step, 'done': {cur[cli]: 0}, 'comp_event': 'Acquire'})
        elif act == 'DispatchRelease':
            cmds.append('pump')
            expect.append({'step': step, 'parked_prefix': {cur[cli]: 'log/'}, 'comp_event': 'Free'})
        elif act == 'Select':
            # exactly one critical section (the model's atomic action): the thread reaches the selector lock, then returns
            cmds.append(f'run {cur[cli]} lock')
            expect.append({'step': step, 'parked': {cur[cli]: 'lock'}})
            cmds.append(f'run {cur[cli]}')
            expect.append({'step': step, 'done': {cur[cli]: 1}})
        elif act == 'Deselect':
            cmds.append(f'run {cur[cli]} lock')
            expect.append({'step': step, 'parked': {cur[cli]: 'lock'}})
            cmds.append(f'run {cur[cli]}')
            expect.append({'step': step, 'done': {cur[cli]: 0}})
        elif act == 'OutBegin':
            nev += 1
            evname = f'ev{nev}'
            # the delivery takes the selector lock exactly once and, if somebody is selected, calls the handler inside
            cmds.append(f'comp {evname} api Done 5')
            expect.append({'step': step})
            cmds.append(f'run {evname} lock')
            expect.append({'step': step, 'parked': {evname: 'lock'}})
            cmds.append(f'run {evname}')
            if cli == 'none':
                expect.append({'step': step, 'done': {evname: 0}, 'delivered': None})
            else:
                expect.append({'step': step, 'parked_prefix': {evname: 'handler/user/api/Done'}, 'delivered': cli})
        elif act == 'OutEnd':
            if cli != 'none':
                cmds.append(f'run {evname}')
                expect.append({'step': step, 'done': {evname: 0}})
        # ClaimDenied: the caller has already returned in the implementation (no separate step)
    return cmds, expect, cur, evname


def replay(job):
    prog, case = job
    hist = case['hist']
    cmds, expect, cur, evname = plan(hist)
    extra = []
    probe = None
    if case['owner'] == 'disp' and case['target'] != 'none':
        waiting = [c for c, st in case['pc'].items() if st in ('sel', 'desel')]
        if waiting:
            probe = cur[waiting[0]]
            extra = [f'run {probe} lock', f'try {probe} 150', f'run {evname}', f'run {probe}']
    replies = prog.run(SETUP + cmds + extra, timeout=240)
    if any(r.get('cmd') in ('CRASH', 'TIMEOUT') for r in replies):
        return [('driver run', 'completes', json.dumps(replies[-1])[:300])], []
    if replies and replies[-1].get('cmd') == 'STUCK':
        k = len(replies) - 2 - len(SETUP)
        where = (SETUP + cmds + extra)[len(replies) - 2] if len(replies) >= 2 else '?'
        return [(f'command {k + 1} [{where}]', 'system becomes quiescent',
                 'a thread keeps running or is stuck (deadlock, or blocked where the model says it can proceed)')], []
    strict = []
    base = len(SETUP)
    for k, exp in enumerate(expect):
        rep = replies[base + k]
        step = exp['step']
        label = f'step {k + 1} {step["a"]}({step["c"]}) [{cmds[k]}]'
        if not rep.get('quiet', True):
            return [(label, 'system becomes quiescent', 'a thread keeps running or is stuck (possible deadlock)')], strict
        if 'blocked_has' in exp and exp['blocked_has'] not in rep.get('blocked', []):
            return [(label, f'caller {exp["blocked_has"]} blocked in the dispatcher hand-off', rep.get('blocked'))], strict
        for thr, where in exp.get('parked', {}).items():
            if rep.get('parked', {}).get(thr) != where:
                return [(label, f'{thr} at {where}', {'parked': rep.get('parked'), 'done': rep.get('done')})], strict
        for thr, where in exp.get('parked_prefix', {}).items():
            if not str(rep.get('parked', {}).get(thr, '')).startswith(where):
                return [(label, f'{thr} inside {where} (holding the selector lock)', {'parked': rep.get('parked'), 'done': rep.get('done'),
                                                                                      'log': rep.get('log')})], strict
        for thr, reply in exp.get('done', {}).items():
            got = rep.get('done', {}).get(thr)
            if not got or not got.get('ok') or got.get('reply') != reply:
                return [(label, f'{thr} returns {reply}', {'done': rep.get('done'), 'parked': rep.get('parked')})], strict
        if 'comp_event' in exp:
            evs = [e for e in rep.get('log', []) if e['side'] == 'comp']
            if [e['event'] for e in evs] != [exp['comp_event']] or evs[0]['ctx'] != 'disp':
                return [(label, f'component handles {exp["comp_event"]} in the dispatcher', rep.get('log'))], strict
        if 'delivered' in exp:
            users = [e['client'] for e in rep.get('log', []) if e['side'] == 'user']
            want = [] if exp['delivered'] is None else [exp['delivered']]
            if users != want:
                return [(label, f'out-event delivered to {want}', users)], strict
            holder, hpc = step.get('h', 'none'), step.get('hp', '')
            if holder != 'none' and hpc in ('sel', 'holding') and users != [holder]:
                strict.append({'kind': 'out-event-between-grant-and-select' if hpc == 'sel' else 'deselect-by-non-holder',
                               'holder': holder, 'delivered': users, 'history': [f'{h["a"]}({h["c"]})' for h in hist[:hist.index(step) + 1]]})
    if probe:
        rep0 = replies[base + len(cmds)]
        if rep0.get('parked', {}).get(probe) != 'lock':
            return [('mutual exclusion probe', f'{probe} reaches the selector lock', rep0.get('parked'))], strict
        rep = replies[base + len(cmds) + 1]
        if rep.get('res', {}).get('progressed', True):
            return [('mutual exclusion probe', f'{probe} cannot enter Select/Deselect while the out-event handler holds the lock',
                     rep)], strict
        rep2, rep3 = replies[base + len(cmds) + 2], replies[base + len(cmds) + 3]
        finished = dict(rep2.get('done', {}), **rep3.get('done', {}))
        if probe not in finished or evname not in finished or not rep3.get('quiet', True):
            return [('after the handler returns', f'{evname} and {probe} both complete', [rep2, rep3])], strict
    return [], strict


def mutex_wrapped_check(chk, tier):
    """MutexWrapped.tla behaviours replayed on the real generated helper."""
    core.repo_guard()
    from dznpy.support_files import mutex_wrapped  # pylint: disable=import-outside-toplevel
    work = core.subdir('mw')
    gen = mutex_wrapped.create_header(None)
    with open(os.path.join(work, gen.filename), 'w', encoding='utf-8') as fil:
        fil.write(gen.contents)
    src = os.path.join(core.VERIF, 'cxx', 'mutex_wrapped_driver.cc')
    key = cxx.file_hash(gen.contents, open(src, encoding='utf-8').read())
    exe = os.path.join(cxx.CACHE, key, 'mw')
    if not os.path.exists(exe):
        os.makedirs(os.path.dirname(exe), exist_ok=True)
        proc = subprocess.run(['g++', '-std=c++17', '-pthread', '-w', '-I', work, f'-DMW_HEADER="{gen.filename}"', src, '-o', exe],
                              capture_output=True, text=True, check=False)
        if proc.returncode != 0:
            chk.violation('MutexWrapped driver does not compile against the generated header: ' + proc.stderr[:400],
                          {'compiler_output': proc.stderr[:2000]}, {'kind': 'compile-error'})
            return
    res = chk.tlc('MutexWrapped', 'MutexWrapped.cfg', workers=4)
    hists = [e['hist'] for e in res.emitted()]
    chk.sample({'mutex_wrapped_history': hists[len(hists) // 2]})
    from concurrent.futures import ThreadPoolExecutor  # pylint: disable=import-outside-toplevel

    stop = [0]

    def one(hist):
        if stop[0] >= 5:
            return hist, None, ''
        lines = [f'{step["a"]} {step["t"]}' for step in hist]
        try:
            proc = subprocess.run([exe], input='\n'.join(lines) + '\nquit\n', capture_output=True, text=True, timeout=100, check=False)
            out = proc.stdout
        except subprocess.TimeoutExpired as exc:
            out = exc.stdout.decode() if isinstance(exc.stdout, bytes) else (exc.stdout or '')
            stop[0] += 1
        got = [json.loads(ln) for ln in out.splitlines() if ln.startswith('{')]
        if len(got) < len(hist) or any(g.get('overlap') for g in got):
            stop[0] += 1
        return hist, got, out
    nbad = 0
    with ThreadPoolExecutor(max_workers=min(core.NCPU, 12)) as pool:
        for hist, got, raw in pool.map(one, hists):
            if got is None:
                continue
            chk.count(('mw', json.dumps(hist)))
            chk.traces += 1
            if nbad >= 5:
                continue
            if len(got) < len(hist):
                nbad += 1
                chk.violation('MutexWrapped driver stopped early (deadlock or crash)', {'history': hist, 'stdout': raw[-500:]})
                continue
            for step, rep in zip(hist, got):
                exp = {'owner': step['owner'], 'waiting': sorted(step['waiting']), 'value': step['value']}
                obs = {'owner': rep.get('owner'), 'waiting': sorted(rep.get('waiting', [])), 'value': rep.get('value')}
                if exp != obs or rep.get('overlap'):
                    nbad += 1
                    chk.violation(f'MutexWrapped: after {step["a"]}({step["t"]}) the model has {exp}, the generated helper {obs}'
                                  + (' (two threads inside the critical section)' if rep.get('overlap') else ''),
                                  {'history': hist, 'observed': got})
                    break


def check_c11(tier, seed):
    chk = core.Check('C11', tier, seed)
    core.repo_guard()
    chk.rule = ('TLC explores MultiClientConc.tla exhaustively (2 clients x 2 cycles and 3 clients x 1 cycle, stray releases, '
                'out-events at every point) for mutual exclusion, deadlock freedom and HolderReceives with the two known '
                'windows excluded; a state cover of the 2-client model (one shortest history per reachable state) is replayed '
                'on the real compiled shell with real threads parked at yield points, checking after every step where each '
                'thread is, who received the out-event, replies, and that a client cannot enter Select/Deselect while a '
                'delivery holds the lock; the same binary runs free under ThreadSanitizer with three clients cycling '
                'claim/release against out-events; MutexWrapped.tla behaviours are replayed on the generated helper.')
    h_listed, i_listed = listed('H'), listed('I')
    name, decls, cfg, grant = fixed_models()[1]
    prog = cxx.Program(decls, cfg, flags=['-DVERIF_LOCK_YIELD', '-ldl'])
    if not prog.compile():
        chk.violation('multi-client program does not compile: ' + (prog.error or '')[:300], {'cfg': cfg}, {'kind': 'compile-error'})
        return chk.finish()
    chk.programs += 1
    # (c) conformance first: which design does the code under test implement?  MultiClientConc.tla carries the shipped
    # design and the one in which Deselect(id) only lets go of client id (known finding H repaired); the schedules of the
    # first design that the real threads follow in every step decide which model the rest of the check talks about.
    designs = [('shipped', 'MultiClientConc_replay2.cfg' if tier == 'thorough' else 'MultiClientConc_replay.cfg',
                ['MultiClientConc_shipped.cfg', 'MultiClientConc_shipped3.cfg'], 'MultiClientConc_classify.cfg'),
               ('deselect-checks-identity', 'MultiClientConc_replay_h.cfg', ['MultiClientConc_shipped3_h.cfg'],
                'MultiClientConc_classify_h.cfg')]
    from concurrent.futures import ThreadPoolExecutor  # pylint: disable=import-outside-toplevel
    chosen, first_failures = None, None
    for dname, rcfg, safety_cfgs, classify_cfg in designs:
        res = chk.tlc('MultiClientConc', rcfg, timeout=1200)
        cases = res.emitted()
        keys = {json.dumps(c['hist']) for c in cases}
        prefixes = set()
        for c in cases:
            for k in range(1, len(c['hist'])):
                prefixes.add(json.dumps(c['hist'][:k]))
        maximal = [c for c in cases if json.dumps(c['hist']) not in prefixes]
        nbad_box = [0]

        def guarded(case):
            if nbad_box[0] >= 8:
                return [], []
            out = replay((prog, case))
            if out[0]:
                nbad_box[0] += 1
            return out
        failures, strict_hits = [], []
        with ThreadPoolExecutor(max_workers=min(core.NCPU, 10)) as pool:
            for case, (bad, strict) in zip(maximal, pool.map(guarded, maximal)):
                if dname == 'shipped':
                    chk.count(('schedule', json.dumps(case['hist'])))
                    chk.traces += 1
                strict_hits.extend((case, hit) for hit in strict[:1])
                if bad:
                    failures.append((case, bad[0]))
        if first_failures is None:
            first_failures = (failures, strict_hits, maximal, keys)
        if not failures:
            chosen = (dname, safety_cfgs, classify_cfg, strict_hits, maximal, keys)
            break
    if chosen is None:
        failures, strict_hits, maximal, keys = first_failures
        dname, safety_cfgs, classify_cfg = designs[0][0], designs[0][2], designs[0][3]
        for case, (clause, exp, got) in failures[:8]:
            chk.violation(f'schedule replayed on real threads: {clause}: model expects {str(exp)[:200]}, observed {str(got)[:300]}',
                          {'schedule': [f'{h["a"]}({h["c"]})' for h in case['hist']], 'cfg': cfg, 'decls': decls})
    else:
        dname, safety_cfgs, classify_cfg, strict_hits, maximal, keys = chosen
    if chosen is not None and dname == 'shipped' and tier == 'thorough':
        # three clients, one cycle each: every schedule of the state cover
        res3 = chk.tlc('MultiClientConc', 'MultiClientConc_replay3.cfg', timeout=1200)
        cases3 = res3.emitted()
        pref3 = set()
        for c in cases3:
            for k in range(1, len(c['hist'])):
                pref3.add(json.dumps(c['hist'][:k]))
        max3 = [c for c in cases3 if json.dumps(c['hist']) not in pref3]
        nbad3 = [0]

        def guarded3(case):
            if nbad3[0] >= 8:
                return [], []
            out = replay((prog, case))
            if out[0]:
                nbad3[0] += 1
            return out
        with ThreadPoolExecutor(max_workers=min(core.NCPU, 10)) as pool:
            for case, (bad, strict) in zip(max3, pool.map(guarded3, max3)):
                chk.count(('schedule3', json.dumps(case['hist'])))
                chk.traces += 1
                strict_hits.extend((case, hit) for hit in strict[:1])
                if bad and nbad3[0] <= 8:
                    clause, exp, got = bad[0]
                    chk.violation(f'three-client schedule replayed on real threads: {clause}: model expects {str(exp)[:200]}, observed {str(got)[:300]}',
                                  {'schedule': [f'{h["a"]}({h["c"]})' for h in case['hist']], 'cfg': cfg, 'decls': decls})
        chk.extra['three_client_schedules_replayed'] = len(max3)
    chk.extra['design_the_code_conforms_to'] = dname if chosen else 'none (violations reported against the shipped design)'
    chk.sample({'schedule': [f'{h["a"]}({h["c"]})' for h in maximal[len(maximal) // 2]['hist']]})
    chk.extra['model_states'] = len(keys)
    chk.extra['schedules_replayed'] = len(maximal)
    for case, hit in strict_hits:
        chk.violation(f'real threads: out-event delivered to {hit["delivered"]} while the holder is {hit["holder"]} '
                      f'after {hit["history"]}', {'schedule': hit['history'], 'cfg': cfg}, {'kind': hit['kind']})
    # (a) the design the code conforms to: exhaustive TLC for mutual exclusion, delivery under the lock, no deadlock
    for mcfg in safety_cfgs:
        chk.tlc('MultiClientConc', mcfg, timeout=1200)
    # what a small change of the same design achieves: the strict property holds
    chk.tlc('MultiClientConc', 'MultiClientConc_fixed.cfg', timeout=1200)
    # (b) the strict property on that design: every counterexample must be one of the listed windows
    res = chk.tlc('MultiClientConc', classify_cfg, timeout=1200)
    kinds = {'I': 0, 'H': 0}
    lines = res.out.splitlines()
    for i, line in enumerate(lines):
        if 'STRICT-C11' in line and i + 1 < len(lines):
            for k in kinds:
                if f'"{k}"' in lines[i + 1] or f'"{k}"' in line:
                    kinds[k] += 1
    chk.extra['model_states_violating_strict_property'] = kinds
    if kinds['I']:
        chk.violation(f'MultiClientConc.tla ({dname} design): an out-event between the granted claim and Select(id) misses the holder',
                      {'spec': classify_cfg, 'states': kinds['I']}, {'kind': 'out-event-between-grant-and-select'})
    if kinds['H']:
        chk.violation(f'MultiClientConc.tla ({dname} design): a Deselect by a client that is not the holder clears the holder\'s selection',
                      {'spec': classify_cfg, 'states': kinds['H']}, {'kind': 'deselect-by-non-holder'})
    # (d) data races / deadlock: the same program free-running under ThreadSanitizer
    tsan = cxx.Program(decls, cfg, flags=['-fsanitize=thread', '-g', '-O1'])
    if tsan.compile():
        chk.programs += 1
        iters = 150 if tier == 'quick' else 1500
        script = ['construct 111', 'register A', 'register B', 'register C', 'bind * * -', 'bind * * A', 'bind * * B', 'bind * * C',
                  'final', 'arbiter api Acquire Free 1 0', f'stress {iters} 1']
        text = '\n'.join(script + ['quit']) + '\n'
        try:
            proc = subprocess.run([tsan.exe, 'free'], input=text, capture_output=True, text=True, timeout=600, check=False,
                                  env=dict(os.environ, TSAN_OPTIONS='halt_on_error=0 report_signal_unsafe=0'))
            races = [ln for ln in proc.stderr.splitlines() if 'WARNING: ThreadSanitizer' in ln]
            chk.extra['tsan_reports'] = len(races)
            chk.count(('tsan', iters))
            if races:
                gen_related = [ln for ln in proc.stderr.splitlines() if ('MultiClientSelector' in ln or 'MutexWrapped' in ln or 'Shell' in ln)]
                chk.violation(f'ThreadSanitizer: {races[0]} ({len(races)} reports)', {'stderr': proc.stderr[:6000], 'frames': gen_related[:20]},
                              {'kind': 'data-race'})
            if '"granted"' not in proc.stdout:
                chk.violation('stress run did not complete: ' + proc.stdout[-300:] + proc.stderr[-300:], {'script': script},
                              {'kind': 'stress-failure'})
            else:
                chk.extra['stress_result'] = [ln for ln in proc.stdout.splitlines() if '"granted"' in ln][0][:200]
        except subprocess.TimeoutExpired:
            chk.violation('stress run under ThreadSanitizer did not terminate within 600 s (deadlock)', {'script': script},
                          {'kind': 'deadlock'})
    else:
        raise core.MachineryError('ThreadSanitizer build failed: ' + (tsan.error or '')[:500])
    mutex_wrapped_check(chk, tier)
    chk.trusted = ['mock Dezyne runtime (threaded pump, blocking dzn::shell) and the cooperative scheduler in the driver '
                   '(harness/cxxgen.py, cxx/mock/verif_rt.hh)', 'ThreadSanitizer of g++ 12', 'the well-behaved mock arbiter '
                   'component (grants iff unclaimed)']
    chk.assumptions = ['interleavings are explored at the granularity of the yield points: forwarded call, dispatcher step, '
                       'Select/Deselect (the selector\'s ILog callback, before the lock is taken), out-event handler (inside '
                       'the critical section); finer interleavings are covered by the ThreadSanitizer run only',
                       'generated headers compiled from copies with #pragma once (known finding F of C06)']
    return chk.finish()
