"""Driving dznpy.adv_shell from plain descriptors.

cfg descriptor: {"encapsulee": [ids], "suffix": str, "origin": "create"|"import", "prefix": None|[ids],
                 "provides": {"sts": SEL, "mts": SEL}, "requires": {"sts": SEL, "mts": SEL},
                 "multiclient": None | {"port", "claim", "grant": [ids], "release"},
                 "copyright": str, "creator": None|str, "file": "M.dzn"}
SEL = {"w": "ALL"|"REMAINING"|"NONE"|"SET", "s": [names]}
"""
import traceback

from . import core, dzn

LIB_ERRORS = ('AdvShellError', 'MultiClientCfgError', 'FindError', 'CppGenError', 'NamespaceIdsTypeError',
              'DznJsonError')


def sel(w='NONE', names=()):
    return {'w': w, 's': sorted(names)}


ALL, NONE, REMAINING = sel('ALL'), sel('NONE'), sel('REMAINING')


def default_cfg(**over):
    cfg = {'encapsulee': ['C'], 'suffix': 'Shell', 'origin': 'create', 'prefix': None,
           'provides': {'sts': ALL, 'mts': NONE}, 'requires': {'sts': ALL, 'mts': NONE}, 'multiclient': None,
           'copyright': 'Copyright (c) test', 'creator': None, 'file': 'M.dzn'}
    cfg.update(over)
    return cfg


def _select(adv, sdesc, order=None):
    if sdesc['w'] != 'SET':
        return adv.PortSelect(getattr(adv.PortWildcard, sdesc['w']))
    names = list(sdesc['s'])
    if order is not None:
        names = [names[i] for i in order if i < len(names)] + [n for i, n in enumerate(names) if i not in order]
    built = set()
    for name in names:          # insertion order of the set is part of what C08 varies
        built.add(name)
    return adv.PortSelect(built)


class Staged:
    """Outcome of constructing the configuration objects and building, stage by stage."""

    def __init__(self):
        self.stage = None           # where it stopped: PortSelect, PortsSemanticsCfg, PortsCfg, MultiClientPortCfg, build
        self.exc = None             # exception object or None
        self.result = None          # CodeGenResult
        self.builder = None
        self.cfg = None
        self.diagnosed = None       # True iff the exception was raised by an explicit raise inside dznpy

    @property
    def exc_name(self):
        return type(self.exc).__name__ if self.exc is not None else None

    @property
    def ok(self):
        return self.exc is None


def diagnosed(exc):
    """True iff exc was raised by a `raise` statement located in <repo>/src/dznpy (not implicitly by Python)."""
    tb = traceback.extract_tb(exc.__traceback__)
    if not tb:
        return False
    last = tb[-1]
    return last.filename.startswith(core.REPO + '/src/dznpy') and (last.line or '').lstrip().startswith('raise')


def make_ports_cfg(adv, desc, st, order=None):
    from dznpy.scoping import ns_ids_t  # pylint: disable=import-outside-toplevel
    st.stage = 'PortSelect'
    psel = {side: {k: _select(adv, desc[side][k], order) for k in ('sts', 'mts')} for side in ('provides', 'requires')}
    st.stage = 'PortsSemanticsCfg'
    psc = {side: adv.PortsSemanticsCfg(sts=psel[side]['sts'], mts=psel[side]['mts']) for side in ('provides', 'requires')}
    mcc = None
    if desc.get('multiclient'):
        st.stage = 'MultiClientPortCfg'
        mcd = desc['multiclient']
        mcc = adv.MultiClientPortCfg(port_name=mcd['port'], claim_event_name=mcd['claim'],
                                     claim_granting_reply_value=ns_ids_t(list(mcd['grant'])),
                                     release_event_name=mcd['release'])
    st.stage = 'PortsCfg'
    return adv.PortsCfg(provides=psc['provides'], requires=psc['requires'], multiclient=mcc)


def make_preset_ports_cfg(adv, desc, st, order=None):
    """The ports configuration made with one of the convenience functions of dznpy.adv_shell (desc['preset'])."""
    from dznpy.scoping import ns_ids_t  # pylint: disable=import-outside-toplevel
    name = desc['preset']
    mcc = None
    if desc.get('multiclient'):
        st.stage = 'MultiClientPortCfg'
        mcd = desc['multiclient']
        mcc = adv.MultiClientPortCfg(port_name=mcd['port'], claim_event_name=mcd['claim'],
                                     claim_granting_reply_value=ns_ids_t(list(mcd['grant'])), release_event_name=mcd['release'])
    st.stage = 'PortSelect'
    fun = getattr(adv, name)
    if name in ('all_mts_mixed_ts', 'all_sts_mixed_ts'):
        sts, mts = _select(adv, desc['requires']['sts'], order), _select(adv, desc['requires']['mts'], order)
        st.stage = 'PortsCfg'
        return fun(sts, mts, mcc) if name == 'all_mts_mixed_ts' else fun(sts, mts)
    st.stage = 'PortsCfg'
    return fun(mcc) if name in ('all_mts', 'all_mts_all_sts') else fun()


def make_configuration(desc, fct, st=None, order=None):
    core.repo_guard()
    import dznpy.adv_shell as adv  # pylint: disable=import-outside-toplevel
    from dznpy.adv_shell.common import Configuration, FacilitiesOrigin  # pylint: disable=import-outside-toplevel
    from dznpy.scoping import ns_ids_t  # pylint: disable=import-outside-toplevel
    st = st or Staged()
    ports_cfg = make_preset_ports_cfg(adv, desc, st, order) if desc.get('preset') else make_ports_cfg(adv, desc, st, order)
    st.stage = 'Configuration'
    return Configuration(dezyne_filename=desc.get('file', 'M.dzn'), ast_fc=fct,
                         output_basename_suffix=desc['suffix'],
                         fqn_encapsulee_name=ns_ids_t(list(desc['encapsulee'])),
                         ports_cfg=ports_cfg,
                         facilities_origin=FacilitiesOrigin.CREATE if desc['origin'] == 'create' else FacilitiesOrigin.IMPORT,
                         copyright=desc['copyright'],
                         support_files_ns_prefix=ns_ids_t(list(desc['prefix'])) if desc.get('prefix') else None,
                         creator_info=desc.get('creator'))


def staged_build(desc, fct, order=None, builder=None):
    """Construct everything and build; never raises for failures of the implementation."""
    core.repo_guard()
    import dznpy.adv_shell as adv  # pylint: disable=import-outside-toplevel
    st = Staged()
    try:
        st.cfg = make_configuration(desc, fct, st, order)
        st.stage = 'build'
        st.builder = builder or adv.Builder()
        st.result = st.builder.build(st.cfg)
    except RecursionError as exc:
        st.exc, st.diagnosed = exc, False
    except Exception as exc:  # pylint: disable=broad-except
        st.exc, st.diagnosed = exc, diagnosed(exc)
    return st


def parse(tokens):
    core.repo_guard()
    from dznpy import json_ast  # pylint: disable=import-outside-toplevel
    return json_ast.DznJsonAst(dzn.doc_to_json(tokens)).process()


def decl(kind, name, pay, ns=(), types=()):
    """Tokens declaring one thing inside namespace ns."""
    toks = [{'t': 'open', 'ids': [i]} for i in ns]
    toks.append({'t': 'decl', 'kind': kind, 'name': list(name) if isinstance(name, (list, tuple)) else [name],
                 'pay': pay, 'types': list(types)})
    toks.extend({'t': 'close'} for _ in ns)
    return toks


def semantics_of_recipe(builder, header_text=None, port_names=()):
    """{port name: 'STS'|'MTS'} as decided by the build: from Builder._recipe when that (private) attribute exists,
    otherwise from the accessor declarations of the generated header (Sts<..>/Mts<..> return types)."""
    try:
        rec = builder._recipe  # pylint: disable=protected-access
        out = {}
        for prt in rec.dzn_elements.provides_ports + rec.dzn_elements.requires_ports:
            out[prt.port.name] = prt.semantics.name
        return out
    except AttributeError:
        return semantics_from_header(header_text or '', port_names)


def semantics_from_header(text, port_names):
    import re  # pylint: disable=import-outside-toplevel
    out = {}
    caps = [n[0].upper() + n[1:] for n in port_names]
    for name in port_names:
        cap = name[0].upper() + name[1:]
        if caps.count(cap) > 1:
            continue                # two ports share an accessor name (p / P): the text does not tell them apart
        mat = re.search(r'::(Sts|Mts)<[^>]*>\s+(?:Provides|Requires)(?:MultiClient)?' + re.escape(cap) + r'\(', text)
        if mat:
            out[name] = 'STS' if mat.group(1) == 'Sts' else 'MTS'
    return out
