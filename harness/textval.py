"""Translation between the spec's content values (Text.tla) and Python objects, plus a random
generator of content values used by the trace drivers."""
import random


def s2py(codes):
    return ''.join(chr(c) for c in codes)


def py2s(text):
    return [ord(c) for c in text]


def lines2py(lines):
    return [s2py(ln) for ln in lines]


def py2lines(lines):
    return [py2s(ln) for ln in lines]


def num_of(text):
    """The number whose str() is `text`."""
    txt = s2py(text)
    val = float(txt) if '.' in txt else int(txt)
    assert str(val) == txt, (txt, val)
    return val


def header_of(obj):
    """The header lines of a TextBlock, from its public surface: str(obj) is header + lines, one EOL each."""
    text = str(obj)
    every = text.split('\n')[:-1] if text else []
    return every[:max(0, len(every) - len(obj.lines))]


def to_py(val, text_gen, memo=None):
    """Build the Python content object described by a spec value.  Structurally equal containers inside one value are the
    SAME Python object (a shared separator list, a dict used twice): sharing must not change what the value means."""
    import json as _json  # pylint: disable=import-outside-toplevel
    memo = {} if memo is None else memo
    k = val['k']
    if k in ('list', 'dict'):
        key = _json.dumps(val, sort_keys=True)
        if key in memo:
            return memo[key]
        obj = [to_py(x, text_gen, memo) for x in val['items']] if k == 'list' else \
            {f'k{i}': to_py(x, text_gen, memo) for i, x in enumerate(val['items'])}
        memo[key] = obj
        return obj
    if k == 'none':
        return None
    if k == 'str':
        return s2py(val['s'])
    if k == 'num':
        return num_of(val['s'])
    if k == 'list':
        return [to_py(x, text_gen) for x in val['items']]
    if k == 'dict':
        return {f'k{i}': to_py(x, text_gen) for i, x in enumerate(val['items'])}
    if k == 'block':
        # public API only: the header goes in through the constructor (model header lines contain no line breaks, so
        # they pass through unchanged), the lines through the setter
        hdr = lines2py(val['h'])
        blk = text_gen.TextBlock(header=hdr if hdr else None)
        blk.lines = lines2py(val['ls'])
        return blk
    raise ValueError(k)


# characters the random drivers draw from: every Python line break, other blanks, plain text,
# characters that matter to C++ comments
BREAKS = '\n\r\x0b\x0c\x1c\x1d\x1e\x85  '
BLANKS = ' \t\x1f\xa0 　'
PLAIN = 'abcXYZ09_-/*\\"#;{}<>.:é€'


def rand_text(rng, maxlen=8, breaks=True):
    n = rng.choice([0, 1, 1, 2, 3, 5, maxlen])
    pool = PLAIN + BLANKS + (BREAKS if breaks else '')
    out = []
    for _ in range(n):
        r = rng.random()
        if breaks and r < 0.25:
            out.append(rng.choice(BREAKS + '\r\n' * 1))
        elif r < 0.4:
            out.append(rng.choice(BLANKS))
        else:
            out.append(rng.choice(pool))
    txt = ''.join(out)
    if breaks and rng.random() < 0.1:
        txt += '\r\n'
    return txt


def rand_value(rng, depth=3, allow_block=True):
    """A random spec value (JSON form)."""
    r = rng.random()
    if depth <= 0 or r < 0.45:
        q = rng.random()
        if q < 0.1:
            return {'k': 'none'}
        if q < 0.2:
            return {'k': 'num', 's': py2s(rng.choice(['0', '7', '42', '1.5', '-3']))}
        return {'k': 'str', 's': py2s(rand_text(rng))}
    if allow_block and r < 0.55:
        nolb = [py2s(rand_text(rng, breaks=False)) for _ in range(rng.randint(0, 3))]
        hdr = [py2s(rand_text(rng, breaks=False)) for _ in range(rng.choice([0, 0, 1]))]
        return {'k': 'block', 'h': hdr, 'ls': nolb}
    kind = 'list' if r < 0.85 else 'dict'
    return {'k': kind, 'items': [rand_value(rng, depth - 1, allow_block) for _ in range(rng.randint(0, 3))]}
