"""Tolerant scanner of the generated shell source: turns the wiring statements of <Shell>.cc into the fact vocabulary of
spec/ShellStructure.tla (WiringOf).  It is a *prioritiser*: a disagreement with the model is confirmed by compiling and
driving the program before anything is reported for the runtime properties; statements it cannot parse are facts too."""
import re


def cap(name):
    return name[0].upper() + name[1:]


def split_top(text):
    """Split at commas that are not inside <>, () or {}."""
    parts, depth, cur = [], 0, ''
    for ch in text:
        if ch in '<({':
            depth += 1
        elif ch in '>)}':
            depth -= 1
        if ch == ',' and depth == 0:
            parts.append(cur.strip())
            cur = ''
        else:
            cur += ch
    if cur.strip():
        parts.append(cur.strip())
    return parts


def params_of(text):
    out = []
    for part in split_top(text or ''):
        mat = re.match(r'^(.*?)(&?)\s*(\w+)$', part)
        if not mat:
            out.append({'cpp': part, 'ref': False, 'name': '?'})
            continue
        out.append({'cpp': mat.group(1).strip(), 'ref': mat.group(2) == '&', 'name': mat.group(3)})
    return out


def names_of(text):
    return [p for p in split_top(text or '') if p]


def fqn_ids(text):
    return [p for p in text.strip().lstrip(':').split('::') if p]


def body_of(src, signature_regex):
    """Text between the column-0 braces of the first function whose signature matches (the generator puts the braces of
    every function body on lines of their own)."""
    mat = re.search(signature_regex, src)
    if not mat:
        return None
    start = src.find('\n{\n', mat.end())
    if start < 0:
        return None
    end = src.find('\n}\n', start)
    return src[start + 3:end if end >= 0 else len(src)]


def scan(cc_text, port_names, shell_name):
    """Return the list of wiring facts found in the shell source."""
    member = {}
    for name in port_names:
        member['m_pp' + cap(name)] = name
        member['m_rp' + cap(name)] = name
    facts = []
    used = []

    def port_of(mem):
        return member.get(mem, '?' + mem)

    def bad(text):
        facts.append({'k': 'unparsed', 'text': ' '.join(text.split())[:160]})

    ctor_sig = re.escape(shell_name) + '::' + re.escape(shell_name) + r'\('
    mctor = re.search(ctor_sig + r'.*?\n(\s*:.*?)\n\{\n', cc_text, re.S)
    mil = mctor.group(1) if mctor else ''
    ctor = body_of(cc_text, ctor_sig) or ''
    consumed = ctor

    def take(regex, handler, where):
        nonlocal consumed
        for mat in re.finditer(regex, where, re.M):
            handler(mat)
            consumed = consumed.replace(mat.group(0), '', 1)

    def h_reroute_in(mat):
        mem, call, evt, prm, disp, capt, rport, revt, args = mat.groups()
        port = port_of(mem)
        if rport != port or revt != evt or disp != 'm_dispatcher':
            return bad(mat.group(0))
        facts.append({'k': 'reroute-in', 'port': port, 'mc': bool(call), 'event': evt, 'params': params_of(prm),
                      'captures': names_of(capt), 'args': names_of(args)})
    take(r'^\s*(\w+)(\(\))?\.in\.(\w+) = \[&\](?:\((.*?)\))? \{\n\s*return dzn::shell\((\w+), \[&(.*?)\] '
         r'\{ return m_encapsulee\.(\w+)\.in\.(\w+)\((.*?)\); \}\);\n\s*\};', h_reroute_in, ctor)

    def h_reroute_out(mat):
        mem, evt, prm, disp, capt, rport, revt, args = mat.groups()
        port = port_of(mem)
        if rport != port or revt != evt or disp != 'm_dispatcher':
            return bad(mat.group(0))
        facts.append({'k': 'reroute-out', 'port': port, 'event': evt, 'params': params_of(prm),
                      'captures': names_of(capt), 'args': names_of(args)})
    take(r'^\s*(\w+)\.out\.(\w+) = \[&\](?:\((.*?)\))? \{\n\s*return (\w+)\(\[&(.*?)\] '
         r'\{ return m_encapsulee\.(\w+)\.out\.(\w+)\((.*?)\); \}\);\n\s*\};', h_reroute_out, ctor)

    def h_mc_out(mat):
        mem, evt, prm, sel, devt, args = mat.groups()
        if sel != mem or devt != evt:
            return bad(mat.group(0))
        facts.append({'k': 'mc-out', 'port': port_of(mem), 'event': evt, 'params': params_of(prm), 'args': names_of(args)})
    take(r'^\s*(\w+)\(\)\.out\.(\w+) = \[&\](?:\((.*?)\))? \{\n\s*auto lockAndData = (\w+)\.CurrentClient\(\);\n'
         r'\s*if \(lockAndData->has_value\(\)\) lockAndData->value\(\)\.get\(\)\.dznPort\.out\.(\w+)\((.*?)\);\n\s*\};',
         h_mc_out, ctor)

    def h_ref_out(mat):
        rport, evt, mem, call, mevt = mat.groups()
        if port_of(mem) != rport or mevt != evt:
            return bad(mat.group(0))
        facts.append({'k': 'mc-ref-out' if call else 'ref-out', 'port': rport, 'event': evt})
    take(r'^\s*m_encapsulee\.(\w+)\.out\.(\w+) = std::ref\((\w+)(\(\))?\.out\.(\w+)\);', h_ref_out, ctor)

    def h_ref_in(mat):
        rport, evt, mem, mevt = mat.groups()
        if port_of(mem) != rport or mevt != evt:
            return bad(mat.group(0))
        facts.append({'k': 'ref-in', 'port': rport, 'event': evt})
    take(r'^\s*m_encapsulee\.(\w+)\.in\.(\w+) = std::ref\((\w+)\.in\.(\w+)\);', h_ref_in, ctor)

    def h_meta(mat):
        port, side, quoted = mat.groups()
        if quoted != port:
            return bad(mat.group(0))
        facts.append({'k': 'meta-name', 'port': port, 'side': side})
    take(r'^\s*m_encapsulee\.(\w+)\.meta\.(require|provide)\.name = "(\w+)";', h_meta, ctor)
    take(r'^\s*m_encapsulee\.dzn_meta\.name = encapsuleeInstanceName;', lambda m: None, ctor)
    for line in consumed.split('\n'):
        if line.strip() and not line.strip().startswith('//'):
            bad(line)

    # member initialisation
    for mat in re.finditer(r'(\w+)\(m_encapsulee\.(\w+)\)', mil):
        if port_of(mat.group(1)) == mat.group(2):
            facts.append({'k': 'member', 'port': mat.group(2), 'init': 'copy'})
        else:
            bad(mat.group(0))
    for mat in re.finditer(r'(\w+)\(multiclientLog, "(\w+)", \[this\]\(const auto& identifier\) \{ return InitializePort(\w+)\(identifier\); \}\)', mil):
        if port_of(mat.group(1)) == mat.group(2) and mat.group(3) == cap(mat.group(2)):
            facts.append({'k': 'member', 'port': mat.group(2), 'init': 'selector'})
        else:
            bad(mat.group(0))
    if 'm_locator(std::move(FacilitiesCheck(prototypeLocator).clone().set(m_runtime).set(m_dispatcher)))' in mil and \
            'm_encapsulee(m_locator)' in mil:
        facts.append({'k': 'origin', 'v': 'create'})
    elif 'm_dispatcher(FacilitiesCheck(locator).get<dzn::pump>())' in mil and 'm_encapsulee(locator)' in mil:
        facts.append({'k': 'origin', 'v': 'import'})
    else:
        bad('member initialiser list: ' + mil)

    # per-client port of a multi-client port
    for name in port_names:
        body = body_of(cc_text, re.escape(shell_name) + '::InitializePort' + cap(name) + r'\(')
        if body is None:
            continue
        rest = body
        for mat in re.finditer(r'^\s*port\.in\.(\w+) = \[&, identifier\](?:\((.*?)\))? \{\n\s*const auto r = (\w+)\.Arbitered\(\)\.in\.(\w+)\((.*?)\);\n'
                               r'\s*if \(r == (\S+)\) (\w+)\.Select\(identifier\);\n\s*return r;\n\s*\};', body, re.M):
            evt, prm, mem, fevt, args, grant, smem = mat.groups()
            rest = rest.replace(mat.group(0), '', 1)
            if port_of(mem) != name or smem != mem or fevt != evt:
                bad(mat.group(0))
                continue
            facts.append({'k': 'client-claim', 'port': name, 'event': evt, 'params': params_of(prm), 'args': names_of(args),
                          'grant': fqn_ids(grant)})
        for mat in re.finditer(r'^\s*port\.in\.(\w+) = \[&, identifier\](?:\((.*?)\))? \{\n\s*(\w+)\.Arbitered\(\)\.in\.(\w+)\((.*?)\);\n'
                               r'\s*(\w+)\.Deselect\(identifier\);\n\s*\};', body, re.M):
            evt, prm, mem, fevt, args, smem = mat.groups()
            rest = rest.replace(mat.group(0), '', 1)
            if port_of(mem) != name or smem != mem or fevt != evt:
                bad(mat.group(0))
                continue
            facts.append({'k': 'client-release', 'port': name, 'event': evt, 'params': params_of(prm), 'args': names_of(args)})
        for mat in re.finditer(r'^\s*port\.in\.(\w+) = std::ref\((\w+)\(\)\.in\.(\w+)\);', body, re.M):
            evt, mem, fevt = mat.groups()
            rest = rest.replace(mat.group(0), '', 1)
            if port_of(mem) != name or fevt != evt:
                bad(mat.group(0))
                continue
            facts.append({'k': 'client-ref', 'port': name, 'event': evt})
        rest = re.sub(r'auto port\(\S+::CreatePort<\S+>\("%s", "arbiter%s"\)\);' % (name, cap(name)), '', rest)
        rest = rest.replace('return port;', '')
        for line in rest.split('\n'):
            if line.strip() and not line.strip().startswith('//'):
                bad('InitializePort: ' + line)

    # accessors
    for mat in re.finditer(r'^(\S+) ' + re.escape(shell_name) + r'::(Provides|Requires)(MultiClient)?(\w+)\((.*?)\)\n\{\n\s*return \{(.+?)\};\n\}',
                           cc_text, re.M):
        rtype, direction, mcflag, capname, _prm, target = mat.groups()
        tmat = re.match(r'^(\S+)::(Sts|Mts)<(\S+)>$', rtype)
        if not tmat:
            bad(mat.group(0))
            continue
        emat = re.match(r'^m_encapsulee\.(\w+)$', target)
        smat = re.match(r'^(\w+)\.Index\(identifier\)\.dznPort$', target)
        if emat:
            port, where = emat.group(1), 'encapsulee'
        elif smat:
            port, where = port_of(smat.group(1)), 'selector'
        else:
            port, where = port_of(target), 'boundary'
        if cap(port) != capname or bool(mcflag) != (where == 'selector'):
            bad(mat.group(0))
            continue
        facts.append({'k': 'accessor', 'port': port, 'dir': direction.lower(), 'strict': tmat.group(2), 'mc': bool(mcflag),
                      'itf': fqn_ids(tmat.group(3)), 'target': where,
                      'rooted': tmat.group(3).startswith('::') and tmat.group(1).startswith('::')})

    # FinalConstruct
    final = body_of(cc_text, re.escape(shell_name) + r'::FinalConstruct\(') or ''
    for line in final.split('\n'):
        line = line.strip()
        if not line or line.startswith('//'):
            continue
        mat = re.match(r'^m_encapsulee\.(\w+)\.check_bindings\(\);$', line)
        if mat:
            facts.append({'k': 'check', 'port': mat.group(1), 'target': 'encapsulee'})
            continue
        mat = re.match(r'^(\w+)\.check_bindings\(\);$', line)
        if mat and mat.group(1) == 'm_encapsulee':
            facts.append({'k': 'check-encapsulee'})
            continue
        if mat:
            facts.append({'k': 'check', 'port': port_of(mat.group(1)), 'target': 'boundary'})
            continue
        mat = re.match(r'^(\w+)\.FinalConstruct\(\);$', line)
        if mat:
            facts.append({'k': 'mc-final', 'port': port_of(mat.group(1))})
            continue
        if line == 'm_encapsulee.dzn_meta.parent = parentComponentMeta;':
            facts.append({'k': 'parent'})
            continue
        bad('FinalConstruct: ' + line)
    return facts
