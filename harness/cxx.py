"""Compiling and driving the real generated shell against the mock Dezyne runtime."""
import hashlib
import json
import os
import shutil
import subprocess

from . import core, cxxgen, model, shell
from .parser_checks import _quiet

MOCK = os.path.join(core.VERIF, 'cxx', 'mock')
CACHE = os.path.join(core.VERIF, '.cache')
BASE_FLAGS = ['-std=c++17', '-pthread', '-w', '-O0']


def file_hash(*parts):
    hsh = hashlib.sha256()
    for part in parts:
        hsh.update(part.encode('utf-8') if isinstance(part, str) else part)
        hsh.update(b'\0')
    return hsh.hexdigest()[:32]


def mock_sources():
    out = []
    for root, _, files in os.walk(MOCK):
        for name in sorted(files):
            with open(os.path.join(root, name), encoding='utf-8') as fil:
                out.append(name + '\n' + fil.read())
    return '\n'.join(out)


class Program:
    """A compiled driver + generated shell for one (model, configuration)."""

    def __init__(self, decls, cfg, flags=(), guard_workaround=True, compiler='g++'):
        self.decls, self.cfg = decls, cfg
        self.info = cxxgen.Info(decls, cfg)
        self.flags = list(flags)
        self.compiler = compiler
        self.guard_workaround = guard_workaround
        self.error = None
        self.exe = None
        self.files = None
        self.build_exc = None

    def generate(self):
        fct = shell.parse(model.decls_to_tokens(self.decls))
        # the program under test is the SECOND build of one Builder on one parsed model (the first uses the opposite
        # semantics): behaviour that depends on an earlier build shows up in the compiled program
        import dznpy.adv_shell as adv  # pylint: disable=import-outside-toplevel
        builder = adv.Builder()
        decoy = dict(self.cfg, mc={'on': False, 'port': '', 'claim': '', 'grant': ['x'], 'release': ''},
                     prov={'sts': shell.ALL, 'mts': shell.NONE} if self.cfg['prov']['sts']['w'] == 'NONE' else {'sts': shell.NONE, 'mts': shell.ALL},
                     req={'sts': shell.NONE, 'mts': shell.ALL} if self.cfg['req']['mts']['w'] in ('NONE', 'SET') else {'sts': shell.ALL, 'mts': shell.NONE},
                     prefix=['Decoy'], origin='import' if self.cfg.get('origin', 'create') == 'create' else 'create')
        _quiet(shell.staged_build, model.cfg_to_desc(decoy), fct, None, builder)
        stg = _quiet(shell.staged_build, model.cfg_to_desc(self.cfg), fct, None, builder)
        if not stg.ok:
            self.build_exc = stg.exc
            return False
        self.files = {g.filename: g.contents for g in stg.result.files}
        return True

    def sources(self):
        """All files of the translation unit as {name: text}."""
        info = self.info
        base = self.cfg.get('base', 'M')
        shell_hh, shell_cc = info.shell_name + '.hh', info.shell_name + '.cc'
        srcs = {}
        for name, text in self.files.items():
            if name.endswith('.hh') and self.guard_workaround:
                text = '#pragma once\n' + text       # known finding F: generated headers have no include guards
            srcs[name] = text
        srcs[base + '.hh'] = cxxgen.model_header(info)
        # single translation unit: the shell source is included into the driver (also covers known finding G)
        srcs['driver.cc'] = cxxgen.driver_source(info, shell_hh) + f'\n#include "{shell_cc}"\n'
        return srcs

    def compile(self):
        if self.files is None and not self.generate():
            self.error = f'build failed: {type(self.build_exc).__name__}: {self.build_exc}'
            return False
        srcs = self.sources()
        key = file_hash(json.dumps(srcs, sort_keys=True), mock_sources(), ' '.join(BASE_FLAGS + self.flags), self.compiler)
        cdir = os.path.join(CACHE, key)
        exe = os.path.join(cdir, 'driver')
        if os.path.exists(exe):
            try:
                os.utime(cdir, None)            # most recently used (see prune_cache)
            except OSError:
                pass
            self.exe = exe
            return True
        work = os.path.join(core.subdir('cxx'), key)
        os.makedirs(work, exist_ok=True)
        for name, text in srcs.items():
            with open(os.path.join(work, name), 'w', encoding='utf-8') as fil:
                fil.write(text)
        cmd = [self.compiler] + BASE_FLAGS + self.flags + ['-I', MOCK, '-I', work, os.path.join(work, 'driver.cc'), '-o',
                                                           os.path.join(work, 'driver')]
        proc = subprocess.run(cmd, capture_output=True, text=True, check=False)
        if proc.returncode != 0:
            self.error = proc.stderr[:3000]
            self.workdir = work
            return False
        os.makedirs(cdir, exist_ok=True)
        shutil.move(os.path.join(work, 'driver'), exe)
        shutil.rmtree(work, True)
        self.exe = exe
        return True

    def run(self, commands, mode='stepped', timeout=300, env=None):
        """Feed commands, return the list of JSON replies (one per command)."""
        text = '\n'.join(commands + ['quit']) + '\n'
        penv = dict(os.environ)
        penv.update(env or {})
        try:
            proc = subprocess.run([self.exe] + (['free'] if mode == 'free' else []), input=text, capture_output=True,
                                  text=True, timeout=timeout, check=False, env=penv)
        except subprocess.TimeoutExpired as exc:
            return [{'cmd': 'TIMEOUT', 'res': {'ok': False, 'what': 'driver timeout'}, 'stdout': (exc.stdout or '')[-2000:] if isinstance(exc.stdout, str) else ''}]
        replies = []
        for line in proc.stdout.splitlines():
            if line.startswith('{'):
                try:
                    replies.append(json.loads(line))
                except ValueError:
                    replies.append({'cmd': 'UNPARSABLE', 'raw': line[:400]})
        if replies and replies[-1].get('cmd') == 'STUCK':
            return replies
        if proc.returncode != 0 or not replies or replies[-1].get('cmd') != 'quit':
            replies.append({'cmd': 'CRASH', 'rc': proc.returncode, 'stderr': proc.stderr[-3000:]})
        return replies


def prune_cache(keep=2500, limit=4000):
    """The cache of compiled drivers is bounded: beyond `limit` entries the least recently used are removed."""
    try:
        names = os.listdir(CACHE)
        if len(names) <= limit:
            return
        aged = sorted(names, key=lambda n: os.path.getmtime(os.path.join(CACHE, n)))
        for name in aged[:len(names) - keep]:
            shutil.rmtree(os.path.join(CACHE, name), True)
    except OSError:
        pass


def compile_many(programs, jobs=None):
    """Compile programs in parallel (threads: the work is in child processes)."""
    from concurrent.futures import ThreadPoolExecutor  # pylint: disable=import-outside-toplevel
    with ThreadPoolExecutor(max_workers=jobs or min(core.NCPU, 16)) as pool:
        out = list(pool.map(lambda p: p.compile(), programs))
    prune_cache()
    return out
