"""Maps property ids to check functions."""


def get(pid):
    if pid in ('C17', 'C18'):
        from . import text_checks
        return {'C17': text_checks.check_c17, 'C18': text_checks.check_c18}[pid]
    if pid in ('C05', 'C14', 'C15', 'C16'):
        from . import parser_checks
        return getattr(parser_checks, 'check_' + pid.lower())
    if pid == 'C03':
        from . import portsel_checks
        return portsel_checks.check_c03
    if pid in ('C07', 'C13'):
        from . import build_checks
        return getattr(build_checks, 'check_' + pid.lower())
    if pid in ('C08', 'C12'):
        from . import history_checks
        return getattr(history_checks, 'check_' + pid.lower())
    if pid == 'C19':
        from . import text_checks, history_checks, core

        def check_c19(tier, seed):
            chk = core.Check('C19', tier, seed)
            mods = text_checks._mods()
            chk.rule = ('comment objects: every content value of the TextCases universes and every create/append/+=/render '
                        'history (<=4 calls, hostile texts) is rendered by the real cpp_gen.Comment and compared with the model '
                        '(CommentLaw: every line starts with //, carries the stored text, rendering is read-only), random '
                        'comment traces are validated by TextBlockTrace.tla; builds: for 2 documents x 4 configurations, '
                        'copyright/creator variants with every line-break character, blank lines, */, #include, }; are built '
                        'and BuildHistoryTrace.tla requires the non-comment part of all files to be a function of the '
                        'configuration without copyright/creator; support_files.generate_cpp_code is given the same hostile texts '
                        'as header (TextBlock and Comment): its code lines must stay those of the baseline.')
            text_checks.check_c19_text(chk, tier, seed, mods)
            history_checks.c19_build_part(chk, tier, seed)
            history_checks.c19_support_header_part(chk)
            chk.exhaustive = True
            chk.assumptions = ['a comment line is a line starting with // ; explicit indent() calls on a Comment object '
                               'are outside the statement', 'a rendered line ending in a backslash (line splicing) is '
                               'not covered by the statement']
            return chk.finish()
        return check_c19
    if pid == 'C20':
        from . import cppgen_checks
        return cppgen_checks.check_c20
    if pid in ('C01', 'C02', 'C04', 'C09', 'C10'):
        from . import runtime_checks
        return getattr(runtime_checks, 'check_' + pid.lower())
    if pid == 'C06':
        from . import include_checks
        return include_checks.check_c06
    if pid == 'C11':
        from . import conc_checks
        return conc_checks.check_c11
    raise SystemExit(f'no check registered for {pid}')
