"""Maps property ids to check functions."""


def get(pid):
    if pid in ('C17', 'C18'):
        from . import text_checks
        return {'C17': text_checks.check_c17, 'C18': text_checks.check_c18}[pid]
    if pid in ('C05', 'C14', 'C15', 'C16'):
        from . import parser_checks
        return getattr(parser_checks, 'check_' + pid.lower())
    if pid == 'C03':
        from . import portsel_checks
        return portsel_checks.check_c03
    if pid in ('C07', 'C13'):
        from . import build_checks
        return getattr(build_checks, 'check_' + pid.lower())
    raise SystemExit(f'no check registered for {pid}')
