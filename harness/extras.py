"""Conformance of behaviour no listed property needs (spec/MiscUtils.tla): `./check extras`.
Not registered in MANIFEST.json; prints DIFFERENCE lines, never a VIOLATION line, always exits 0 unless the machinery fails."""
from . import core


def run(_tier, _seed):
    core.repo_guard()
    from dznpy import misc_utils  # pylint: disable=import-outside-toplevel
    res = core.run_tlc('MiscUtils', 'MiscUtils.cfg', workers=2, timeout=600)
    cases = res.emitted()
    if not cases:
        raise core.MachineryError('MiscUtils emitted no cases')
    txt = lambda codes: ''.join(chr(c) for c in codes)  # noqa: E731
    diffs = 0
    for case in cases:
        arg = txt(case['arg'])
        try:
            if case['kind'] == 'plural':
                got = misc_utils.plural(arg, ['x'] * case['n'])
            elif case['kind'] == 'basename':
                got = misc_utils.get_basename(arg)
            else:
                got = misc_utils.newlined_list_items([arg] * case['n'])
        except Exception as exc:  # pylint: disable=broad-except
            got = f'<{type(exc).__name__}>'
        if got != txt(case['out']):
            diffs += 1
            print(f'DIFFERENCE extras: {case["kind"]}({arg!r}, n={case["n"]}): model {txt(case["out"])!r}, implementation {got!r}')
    print(f'[extras] MiscUtils.tla cases={len(cases)} differences={diffs}')
    return 0
