"""C03: port configuration gives every exposed port exactly one semantics or is rejected."""
import json
import random

from . import core, dzn, shell
from .parser_checks import replay_parallel, _quiet

ITF = {'events': [dzn.event('Do', 'in'), dzn.event('Claim', 'in', ['Res']), dzn.event('Release', 'in'), dzn.event('Done', 'out')]}


def model_tokens(P, R, Inj, order_seed=0):
    ports = [dzn.port(p, ['I'], 'provides') for p in P] + [dzn.port(r, ['I'], 'requires') for r in R] + \
            [dzn.port(i, ['I'], 'requires', True) for i in Inj]
    random.Random(order_seed).shuffle(ports)
    return shell.decl('enum', 'Res', {'fields': ['Ok', 'No']}) + shell.decl('interface', 'I', ITF) + \
        shell.decl('component', 'C', {'ports': ports})


def run_case(case):
    """Configure + build with the real code; return the observation {k, f, exc, files}."""
    core.repo_guard()
    from dznpy.adv_shell.types import AdvShellError  # pylint: disable=import-outside-toplevel
    P, R, Inj = case['P'], case['R'], case['Inj']
    fct = shell.parse(model_tokens(P, R, Inj, len(P) * 7 + len(R)))
    desc = shell.default_cfg(provides=case['prov'], requires=case['req'],
                             multiclient={'port': case['mc'], 'claim': 'Claim', 'grant': ['Ok'], 'release': 'Release'}
                             if case.get('mc') else None)
    if case.get('preset'):
        desc['preset'] = case['preset']        # the configuration is made with the convenience function of that name
    stg = _quiet(shell.staged_build, desc, fct)
    obs = {'stage': stg.stage, 'exc': stg.exc_name, 'files': None, 'f': None, 'k': None, 'match': None}
    if stg.ok:
        obs['k'] = 'assign'
        obs['files'] = [g.filename for g in stg.result.files]
        hdr = stg.result.files[0].contents
        obs['match'] = {k: v.name for k, v in stg.cfg.ports_cfg.match(set(P), set(R) | set(Inj)).value.items()}
        obs['f'] = shell.semantics_of_recipe(stg.builder, hdr, list(P) + list(R))
        if set(obs['f']) != set(P) | set(R):
            # neither the recipe nor the accessor declarations are readable in the expected shape: what the build decided
            # per port is not observable at this level (the compiled checks C02 observe it); fall back to match()
            obs['f'] = {k: v for k, v in obs['match'].items() if k in set(P) | set(R)}
    elif (isinstance(stg.exc, AdvShellError) or type(stg.exc).__module__.split('.')[0] == 'dznpy') and stg.diagnosed:
        obs['k'] = 'reject'
    elif case.get('mc') and isinstance(stg.exc, ValueError) and stg.diagnosed and str(stg.exc).strip():
        obs['k'] = 'reject'          # multi-client on a non-MTS port: a worded ValueError (lenient reading, see C13)
    else:
        obs['k'] = 'internal'
    return obs


def replay_portsel_case(case):
    try:
        obs = run_case(case)
    except Exception as exc:  # pylint: disable=broad-except
        return [('harness-visible exception', None, f'{type(exc).__name__}: {exc}')]
    bad = []
    if not isinstance(case['f'], dict):       # ToJson prints the empty function as []
        case = dict(case, f={})
    verdict = case['verdict']
    if obs['k'] == 'internal':
        bad.append(('internal error instead of a configuration error', 'AdvShellError or success',
                    f'{obs["exc"]} at stage {obs["stage"]}'))
        return bad
    if verdict == 'must-reject' and obs['k'] != 'reject':
        bad.append(('configuration that must be rejected was accepted', 'reject', obs))
    if verdict == 'must-assign' and obs['k'] != 'assign':
        bad.append(('valid configuration was rejected', case['f'], f'{obs["exc"]} at {obs["stage"]}'))
    if obs['k'] == 'assign':
        if obs['f'] != case['f']:
            bad.append(('semantics per exposed port', case['f'], obs['f']))
        if len(obs['files']) != 8:
            bad.append(('number of files', 8, obs['files']))
        # (whether the header's overview comment lists the ports is not part of the property: not judged)
        exposed = {p: s for p, s in (obs['match'] or {}).items() if p in case['f']}
        if exposed != case['f']:
            bad.append(('PortsCfg.match restricted to exposed ports', case['f'], obs['match']))
    if obs['k'] == 'reject' and obs['files'] is not None:
        bad.append(('rejected configuration produced files', None, obs['files']))
    return bad


def rand_sel(rng, names):
    r = rng.random()
    if r < 0.45:
        return shell.sel(rng.choice(['ALL', 'REMAINING', 'NONE']))
    k = rng.randint(1, max(1, min(4, len(names))))
    return shell.sel('SET', rng.sample(names, k))


def record_trace(rng, tid):
    pn = [f'p{i}' for i in range(rng.randint(0, 6))]
    rn = [f'r{i}' for i in range(rng.randint(0, 6))]
    inj = [r for r in rn if rng.random() < 0.3]
    rr = [r for r in rn if r not in inj]
    events = []
    for _ in range(4):
        case = {'P': pn, 'R': rr, 'Inj': inj,
                'prov': {'sts': rand_sel(rng, pn + ['zz', 'r0']), 'mts': rand_sel(rng, pn + ['zz'])},
                'req': {'sts': rand_sel(rng, rn + ['qq', 'p0']), 'mts': rand_sel(rng, rn + ['qq'])}}
        if rng.random() < 0.5:
            case['prov'] = rng.choice([{'sts': shell.ALL, 'mts': shell.NONE}, {'sts': shell.NONE, 'mts': shell.ALL},
                                       {'sts': shell.NONE, 'mts': rand_sel(rng, pn + ['zz'])},
                                       {'sts': rand_sel(rng, pn + ['zz']), 'mts': shell.NONE}])
        obs = run_case(case)
        events.append(dict(case, k=obs['k'], f=[{'p': p, 'sem': s} for p, s in sorted((obs['f'] or {}).items())],
                           exc=str(obs['exc']), stage=str(obs['stage'])))
    return {'id': tid, 'events': events}


def check_c03(tier, seed):
    chk = core.Check('C03', tier, seed)
    core.repo_guard()
    chk.rule = ('TLC enumerates every pair of selections (wildcard or any non-empty subset of 3 port names + 1 unknown name) '
                'per side against every set of provides / requires / injected ports (provides: 10368 cases, requires: 17496), '
                'and in the thorough tier the full cross product for 2 names per side (360000); C03Law is a TLC invariant; '
                'each case is run through PortSelect/PortsSemanticsCfg/PortsCfg/match/Builder.build on a generated component '
                'with exactly those ports. Random configurations with up to 6 ports per side are validated by '
                'PortSelectionTrace.tla. Also: every configuration made with the six preset functions of dznpy.adv_shell (mixed presets over every requires selection), and port names that differ in letter case only.')
    # (case_*: port names that differ in letter case only are different ports)
    cfgs = ['PortSelection_provides.cfg', 'PortSelection_requires.cfg', 'PortSelection_presets.cfg',
            'PortSelection_case_req.cfg', 'PortSelection_case_prov.cfg', 'PortSelection_both_small.cfg']
    if tier == 'thorough':
        cfgs.append('PortSelection_both.cfg')
    for cfg in cfgs:
        res = chk.tlc('PortSelectionCases', cfg, timeout=3000)
        cases = res.emitted()
        if not cases:
            raise core.MachineryError(f'{cfg}: no cases')
        chk.sample(cases[len(cases) // 2])
        replay_parallel(chk, cases, replay_portsel_case, cfg,
                        lambda c: json.dumps([c['prov'], c['req'], c['P'], c['R'], c['Inj'], c.get('mc', ''), c.get('preset', '')], sort_keys=True))
        chk.traces += len(cases)
    rng = random.Random(seed + 3)
    traces = [_quiet(record_trace, rng, f'p{seed}-{i}') for i in range(500 if tier == 'quick' else 6000)]
    chk.sample({'recorded_trace_first_event': traces[0]['events'][0]})
    rejected = core.validate_traces(chk, 'PortSelectionTrace', 'PortSelectionTrace.cfg', traces)
    for trace, pos in rejected[:8]:
        evt = trace['events'][pos - 1]
        chk.violation(f'random configuration: outcome {evt["k"]} ({evt["exc"]} at {evt["stage"]}) with f={evt["f"]} is not '
                      f'what PortSelection.tla allows', {'event': evt, 'spec': 'PortSelectionTrace.tla'})
    for trc in traces:
        chk.count(('trace', trc['id']))
    chk.exhaustive = True
    chk.assumptions = ['a selection naming an injected requires port is not "a port the component does not have": the model '
                       'accepts it and never exposes the port',
                       'rejections the code makes beyond the five listed situations (equal wildcards such as NONE/NONE) '
                       'are allowed, acceptance with the correct assignment would be allowed too']
    return chk.finish()
