"""Abstract Dezyne documents <-> Dezyne JSON AST <-> projections of dznpy's FileContents.

An abstract document is a list of tokens (the vocabulary of spec/DznDoc.tla):
  {"t": "open", "ids": [..]}            namespace opened (multi-identifier names allowed)
  {"t": "close"}
  {"t": "decl", "kind": K, "name": [..], "pay": P, "types": [{"kind","name","pay"}..]}
  {"t": "skip", "why": "unknown-class" | "non-dict"}
  {"t": "broken"}                        an element the parser must refuse (component without ports)
K in component system foreign interface enum subint extern import file-name.
P is either a payload descriptor (dict) or the name of an entry of PAYLOADS[K] ("p0", "p1", ...).

The JSON writer is independent of dznpy; the projection turns a parsed FileContents back into plain data
(every field, in order), with payloads re-serialised by an unparser and named by content.
"""
import json

# ----------------------------------------------------------------------------------------------
# payload descriptors
# ----------------------------------------------------------------------------------------------

def port(name, typ, direction='provides', injected=False):
    return {'name': name, 'type': list(typ), 'dir': direction, 'injected': injected}


def formal(name, typ, direction='in'):
    return {'name': name, 'type': list(typ), 'dir': direction}


def event(name, direction='in', reply=('void',), formals=()):
    return {'name': name, 'dir': direction, 'reply': list(reply), 'formals': list(formals)}


PAYLOADS = {
    'component': {
        'p0': {'ports': []},
        'p1': {'ports': [port('api', ['I']), port('hal', ['A', 'I'], 'requires'),
                         port('cfg', ['I'], 'requires', True)]},
    },
    'foreign': {
        'p0': {'ports': [port('api', ['I'])]},
        'p1': {'ports': []},
    },
    'system': {
        'p0': {'ports': [port('api', ['I'])],
               'instances': [{'name': 'c1', 'type': ['C']}, {'name': 't', 'type': ['A', 'T']}],
               'bindings': [{'left': {'port': 'api', 'inst': None}, 'right': {'port': 'api', 'inst': 'c1'}},
                            {'left': {'port': 'hal', 'inst': 'c1'}, 'right': {'port': 'x', 'inst': 't'}}]},
        'p1': {'ports': [], 'instances': [], 'bindings': []},
    },
    'interface': {
        'p0': {'events': []},
        'p1': {'events': [event('Go', 'in', ['E'], [formal('a', ['X']), formal('b', ['A', 'X'], 'out'),
                                                    formal('c', ['X'], 'inout')]),
                          event('Done', 'out', ['void'], [formal('v', ['X'])])]},
    },
    'enum': {'p0': {'fields': ['Ok', 'Fail']}, 'p1': {'fields': []}},
    'subint': {'p0': {'range': {'from': 0, 'to': 3}}, 'p1': {'range': {'from': -2, 'to': 2}}},
    'extern': {'p0': {'value': 'int'}, 'p1': {'value': '::ns::T<std::string>*'}},
    'import': {'p0': {}, 'p1': {}},
    'file-name': {'p0': {}, 'p1': {}},
}


def payload_of(kind, pay):
    return PAYLOADS[kind][pay] if isinstance(pay, str) else pay


def pay_key(kind, payload):
    """Canonical text of a payload (what 'same payload' means)."""
    return kind + ':' + json.dumps(payload, sort_keys=True, separators=(',', ':'))


# ----------------------------------------------------------------------------------------------
# JSON writer
# ----------------------------------------------------------------------------------------------

def scope_name(ids):
    return {'<class>': 'scope_name', 'ids': list(ids)}


def j_formals(formals):
    return {'<class>': 'formals', 'elements': [
        {'<class>': 'formal', 'expression': 'undefined', 'name': f['name'], 'type_name': scope_name(f['type']),
         'direction': f['dir']} for f in formals]}


def j_ports(ports):
    elements = []
    for prt in ports:
        elt = {'<class>': 'port', 'name': prt['name'], 'type_name': scope_name(prt['type']),
               'direction': prt['dir'], 'formals': j_formals([])}
        if prt.get('injected'):
            elt['injected?'] = 'injected'
        elements.append(elt)
    return {'<class>': 'ports', 'elements': elements}


def j_endpoint(end):
    elt = {'<class>': 'end-point', 'port_name': end['port']}
    if end.get('inst') is not None:
        elt['instance_name'] = end['inst']
    return elt


def j_events(events):
    return {'<class>': 'events', 'elements': [
        {'<class>': 'event', 'name': e['name'],
         'signature': {'<class>': 'signature', 'type_name': scope_name(e['reply']), 'formals': j_formals(e['formals'])},
         'direction': e['dir']} for e in events]}


def j_type(tok):
    kind, pay = tok['kind'], payload_of(tok['kind'], tok['pay']) if tok['kind'] in PAYLOADS else {}
    if kind == 'enum':
        return {'<class>': 'enum', 'name': scope_name(tok['name']),
                'fields': {'<class>': 'fields', 'elements': list(pay['fields'])}}
    if kind == 'subint':
        return {'<class>': 'subint', 'name': scope_name(tok['name']),
                'range': {'<class>': 'range', 'from': pay['range']['from'], 'to': pay['range']['to']}}
    if kind == 'extern':
        return {'<class>': 'extern', 'name': scope_name(tok['name']), 'value': {'<class>': 'data', 'value': pay['value']}}
    return {'<class>': kind, 'name': scope_name(tok['name'])}       # unknown type class: skipped by the parser


def j_decl(tok):
    kind = tok['kind']
    pay = payload_of(kind, tok['pay'])
    name = scope_name(tok['name'])
    if kind in ('component', 'foreign'):
        return {'<class>': kind, 'name': name, 'ports': j_ports(pay['ports'])}
    if kind == 'system':
        return {'<class>': 'system', 'name': name, 'ports': j_ports(pay['ports']),
                'instances': {'<class>': 'instances', 'elements': [
                    {'<class>': 'instance', 'name': i['name'], 'type_name': scope_name(i['type'])}
                    for i in pay['instances']]},
                'bindings': {'<class>': 'bindings', 'elements': [
                    {'<class>': 'binding', 'left': j_endpoint(b['left']), 'right': j_endpoint(b['right'])}
                    for b in pay['bindings']]}}
    if kind == 'interface':
        return {'<class>': 'interface', 'name': name,
                'types': {'<class>': 'types', 'elements': [j_type(t) for t in tok.get('types', [])]},
                'events': j_events(pay['events'])}
    if kind in ('enum', 'subint'):
        return j_type(tok)
    if kind == 'extern':
        return {'<class>': 'extern', 'name': name, 'value': {'<class>': 'data', 'value': pay['value']}}
    if kind == 'import':
        return {'<class>': 'import', 'name': '.'.join(tok['name']) + '.dzn'}
    if kind == 'file-name':
        return {'<class>': 'file-name', 'name': './' + '.'.join(tok['name']) + '.dzn'}
    raise ValueError(kind)


def doc_to_tree(tokens):
    """Abstract document -> JSON AST (python dict)."""
    root = {'<class>': 'root', 'elements': [], 'working-directory': '/w'}
    stack = [root['elements']]
    for tok in tokens:
        kind = tok['t']
        if kind == 'open':
            nsp = {'<class>': 'namespace', 'name': scope_name(tok['ids']), 'elements': []}
            stack[-1].append(nsp)
            stack.append(nsp['elements'])
        elif kind == 'close':
            stack.pop()
        elif kind == 'decl':
            stack[-1].append(j_decl(tok))
        elif kind == 'skip':
            stack[-1].append({'<class>': 'bogus-class', 'name': 'x'} if tok['why'] == 'unknown-class' else 42)
        elif kind == 'broken':
            if tok.get('how') == 'interface':
                # local types parse fine, the out-event with a reply value is refused: the parser gives up late
                bad = j_decl({'kind': 'interface', 'name': ['BrokenI'], 'pay': {'events': [event('Ok', 'in'), event('Bad', 'out', ['bool'])]},
                              'types': [{'kind': 'enum', 'name': ['LeftE'], 'pay': 'p0'}, {'kind': 'extern', 'name': ['LeftX'], 'pay': 'p0'},
                                        {'kind': 'subint', 'name': ['LeftS'], 'pay': 'p0'}]})
                stack[-1].append(bad)
            else:
                stack[-1].append({'<class>': 'component', 'name': scope_name(['Broken'])})
        else:
            raise ValueError(kind)
    return root


def doc_to_json(tokens):
    return json.dumps(doc_to_tree(tokens)).encode('utf-8')


# ----------------------------------------------------------------------------------------------
# projection of FileContents (the unparser)
# ----------------------------------------------------------------------------------------------

def _ports(ports):
    return [port(p.name, p.type_name.value.items, 'provides' if p.direction.name == 'PROVIDES' else 'requires',
                 bool(p.injected.value)) for p in ports.elements]


def _formals(formals):
    return [formal(f.name, f.type_name.value.items, {'IN': 'in', 'OUT': 'out', 'INOUT': 'inout'}[f.direction.name])
            for f in formals.elements]


def unparse_payload(kind, obj):
    if kind in ('component', 'foreign'):
        return {'ports': _ports(obj.ports)}
    if kind == 'system':
        return {'ports': _ports(obj.ports),
                'instances': [{'name': i.name, 'type': list(i.type_name.value.items)} for i in obj.instances.elements],
                'bindings': [{'left': {'port': b.left.port_name, 'inst': b.left.instance_name},
                              'right': {'port': b.right.port_name, 'inst': b.right.instance_name}}
                             for b in obj.bindings.elements]}
    if kind == 'interface':
        return {'events': [event(e.name, 'in' if e.direction.name == 'IN' else 'out',
                                 e.signature.type_name.value.items, _formals(e.signature.formals))
                           for e in obj.events.elements]}
    if kind == 'enum':
        return {'fields': list(obj.fields.elements)}
    if kind == 'subint':
        return {'range': {'from': obj.range.from_int, 'to': obj.range.to_int}}
    if kind == 'extern':
        return {'value': obj.value.value}
    return {}


def paytable(tokens):
    """Map canonical payload text -> the name the document used for it."""
    table = {}
    for tok in tokens:
        if tok['t'] != 'decl':
            continue
        for sub in [tok] + list(tok.get('types', [])):
            if sub['kind'] in PAYLOADS:
                key = pay_key(sub['kind'], payload_of(sub['kind'], sub['pay']))
                name = sub['pay'] if isinstance(sub['pay'], str) else key
                table.setdefault(key, name)
    return table


def _entry(kind, obj, table):
    key = pay_key(kind, unparse_payload(kind, obj))
    ent = {'fqn': list(obj.fqn.items), 'scope': list(obj.parent_ns.fqn.items), 'name': list(obj.name.value.items),
           'pay': table.get(key, '?' + key)}
    if obj.parent_ns.fqn_member_name(obj.name.value).items != obj.fqn.items:
        ent['pay'] = '?fqn-inconsistent-with-parent_ns'
    return ent


CONTAINERS = [('components', 'component'), ('enums', 'enum'), ('externs', 'extern'), ('filenames', 'file-name'),
              ('foreigns', 'foreign'), ('imports', 'import'), ('interfaces', 'interface'), ('subints', 'subint'),
              ('systems', 'system')]


def project(fct, tokens):
    """FileContents -> {container: [entries]} in the vocabulary of DznDoc.tla's Parse."""
    table = paytable(tokens)
    out = {}
    for attr, kind in CONTAINERS:
        items = []
        for obj in getattr(fct, attr):
            if kind == 'file-name':
                nm = obj.name
                items.append({'name': nm[2:-4].split('.') if nm.startswith('./') and nm.endswith('.dzn') else ['?' + nm]})
            elif kind == 'import':
                nm = obj.name
                items.append({'name': nm[:-4].split('.') if nm.endswith('.dzn') else ['?' + nm]})
            else:
                ent = _entry(kind, obj, table)
                if kind == 'interface':
                    tkind = {'Enum': 'enum', 'SubInt': 'subint', 'Extern': 'extern'}
                    ent['types'] = [dict(_entry(tkind.get(type(t).__name__, '?'), t, table), kind=tkind.get(type(t).__name__, '?'))
                                    for t in obj.types.elements]
                    if list(obj.ns_trail.fqn.items) != ent['fqn']:
                        ent['pay'] = '?ns_trail-differs-from-fqn'
                items.append(ent)
        out[attr] = items
    return out


def parse_tokens(tokens):
    """Run the real parser on an abstract document; returns ('ok', projection) or ('error', exception-name)."""
    from dznpy import json_ast, scoping  # pylint: disable=import-outside-toplevel
    try:
        fct = json_ast.DznJsonAst(doc_to_json(tokens)).process()
    except (json_ast.DznJsonError, scoping.NamespaceIdsTypeError) as exc:
        return 'error', type(exc).__name__
    return 'ok', project(fct, tokens)
