"""C05 (parse preserves declarations), C14 (lookup), C15 (malformed input), C16 (isolation/repeatability)."""
import contextlib
import copy
import io
import json
import os
import random

from . import core, dzn

IDS = ['A', 'B', 'My', 'x', '_n', 'Ab9', 'I', 'X']


# ----------------------------------------------------------------------------------------------
# random abstract documents
# ----------------------------------------------------------------------------------------------

def rand_ids(rng, lo=1, hi=2):
    return [rng.choice(IDS) for _ in range(rng.randint(lo, hi))]


def rand_payload(rng, kind):
    if kind in ('component', 'foreign', 'system'):
        ports = [dzn.port(rng.choice(['api', 'hal', 'p', 'P', 'q_1']) + str(i), rand_ids(rng, 1, 3),
                          rng.choice(['provides', 'requires']), False) for i in range(rng.randint(0, 3))]
        for prt in ports:
            if prt['dir'] == 'requires' and rng.random() < 0.3:
                prt['injected'] = True
        if kind != 'system':
            return {'ports': ports}
        insts = [{'name': f'i{n}', 'type': rand_ids(rng, 1, 2)} for n in range(rng.randint(0, 2))]
        binds = [{'left': {'port': 'a', 'inst': rng.choice([None, 'i0'])},
                  'right': {'port': 'b', 'inst': rng.choice([None, 'i1'])}} for _ in range(rng.randint(0, 2))]
        return {'ports': ports, 'instances': insts, 'bindings': binds}
    if kind == 'interface':
        events = []
        for n in range(rng.randint(0, 3)):
            direction = rng.choice(['in', 'out'])
            formals = [dzn.formal(f'a{k}', rand_ids(rng, 1, 2),
                                  'in' if direction == 'out' else rng.choice(['in', 'out', 'inout']))
                       for k in range(rng.randint(0, 3))]
            reply = ['void'] if direction == 'out' else rng.choice([['void'], ['bool'], rand_ids(rng, 1, 2)])
            events.append(dzn.event(f'E{n}', direction, reply, formals))
        return {'events': events}
    if kind == 'enum':
        return {'fields': [f'F{n}' for n in range(rng.randint(0, 3))]}
    if kind == 'subint':
        low = rng.randint(-5, 5)
        return {'range': {'from': low, 'to': low + rng.randint(0, 9)}}
    if kind == 'extern':
        return {'value': rng.choice(['int', 'std::string', '::a::B<c>*', 'size_t', ''])}
    return {}


KINDS = ['component', 'system', 'foreign', 'interface', 'enum', 'subint', 'extern', 'import', 'file-name']


def rand_doc(rng, maxtok=14, broken=0.0):
    toks, depth = [], 0
    for _ in range(rng.randint(0, maxtok)):
        r = rng.random()
        if r < 0.18 and depth < 4:
            toks.append({'t': 'open', 'ids': rand_ids(rng, 1, 2)})
            depth += 1
        elif r < 0.33 and depth > 0:
            toks.append({'t': 'close'})
            depth -= 1
        elif r < 0.40:
            toks.append({'t': 'skip', 'why': rng.choice(['unknown-class', 'non-dict'])})
        elif r < 0.40 + broken:
            toks.append({'t': 'broken', 'how': rng.choice(['component', 'interface'])})
        else:
            kind = rng.choice(KINDS)
            tok = {'t': 'decl', 'kind': kind, 'name': rand_ids(rng, 1, 2), 'pay': rand_payload(rng, kind), 'types': []}
            if kind == 'interface':
                for _ in range(rng.randint(0, 3)):
                    tkind = rng.choice(['enum', 'subint', 'enum', 'bogus'])
                    tok['types'].append({'kind': tkind, 'name': rand_ids(rng, 1, 1),
                                         'pay': rand_payload(rng, tkind) if tkind != 'bogus' else 'p0'})
            toks.append(tok)
    toks.extend({'t': 'close'} for _ in range(depth))
    return toks


def spec_tokens(tokens):
    """Tokens as logged in traces: payloads replaced by their content names (opaque for the model)."""
    out = []
    for tok in tokens:
        tok = dict(tok)
        if tok['t'] == 'decl':
            tok['pay'] = _payname(tok['kind'], tok['pay'])
            tok['types'] = [dict(ty, pay=_payname(ty['kind'], ty['pay'])) for ty in tok.get('types', [])]
        out.append(tok)
    return out


def _payname(kind, pay):
    if isinstance(pay, str) or kind not in dzn.PAYLOADS:
        return pay
    return dzn.pay_key(kind, pay)


# ----------------------------------------------------------------------------------------------
# C05
# ----------------------------------------------------------------------------------------------

def _quiet(fn, *args):
    with contextlib.redirect_stdout(io.StringIO()):
        return fn(*args)


def replay_doc_case(case):
    core.repo_guard()
    try:
        status, proj = _quiet(dzn.parse_tokens, case['doc'])
    except Exception as exc:  # pylint: disable=broad-except
        return [('exception', None, f'{type(exc).__name__}: {exc}')]
    if status != 'ok':
        return [('well-formed document refused', 'ok', proj)]
    bad = []
    for cont in case['parsed']:
        if proj.get(cont) != case['parsed'][cont]:
            bad.append((cont, case['parsed'][cont], proj.get(cont)))
    return bad


def record_parse_trace(rng, tid):
    core.repo_guard()
    doc = rand_doc(rng)
    status, proj = _quiet(dzn.parse_tokens, doc)
    obs = {'ok': status == 'ok', 'fc': proj if status == 'ok' else {a: [] for a, _ in dzn.CONTAINERS}}
    return {'id': tid, 'events': [{'op': 'new', 'i': '1', 'has': True, 'doc': spec_tokens(doc)},
                                  {'op': 'process', 'i': '1', 'obs': obs}]}


def report_rejections(chk, module, cfg, traces, label):
    rejected = core.validate_traces(chk, module, cfg, traces)
    for num, (trace, pos) in enumerate(rejected[:8]):
        exp = core.explain_trace(module, cfg, trace, pos) if num < 2 else '<not computed>'
        evt = trace['events'][pos - 1]
        obs = evt.get('obs')
        if isinstance(exp, dict) and isinstance(obs, dict) and 'fc' in exp and 'fc' in obs:
            clause = 'ok' if exp.get('ok') != obs.get('ok') else core.failing_clause(exp['fc'], obs['fc'])
        else:
            clause = core.failing_clause(exp, obs)
        chk.violation(f'{label}: trace {trace["id"]} rejected at event {pos} ({evt.get("op", evt.get("kind"))}): '
                      f'model and implementation differ in {clause}',
                      {'trace': trace, 'position': pos, 'model_expected': exp, 'observed': obs, 'spec': module})
    return rejected


def replay_parallel(chk, cases, fn, label, key):
    """Replay cases in a process pool; report mismatches."""
    import multiprocessing  # pylint: disable=import-outside-toplevel
    nbad = 0
    with multiprocessing.Pool(min(core.NCPU, 16)) as pool:
        for case, bad in zip(cases, pool.imap(fn, cases, chunksize=200)):
            chk.count((label, key(case)))
            if bad and nbad < 12:
                nbad += 1
                clause, exp, got = bad[0]
                chk.violation(f'{label}: {clause}: model expects {str(exp)[:200]}, implementation gives {str(got)[:200]}',
                              {'kind': label, 'case': case, 'mismatches': [list(map(str, b)) for b in bad[:5]]})
    return nbad


def check_c05(tier, seed):
    chk = core.Check('C05', tier, seed)
    core.repo_guard()
    chk.rule = ('TLC builds every balanced token document up to 4/5 tokens (namespaces of 1-2 identifiers, re-opened, '
                'nested to depth 2/3; 5 declaration kinds x 2 names, skips, interfaces with local types) and every '
                'document up to 3 tokens over all 9 kinds x 2 payload variants x multi-identifier names; the C05 laws '
                'are TLC invariants of Parse; each document is written as JSON by an independent writer, parsed by the '
                'real parser and its complete projection (every field, in order) compared with Parse(doc). Random larger '
                'documents with random payloads are validated by DznDocTrace.tla.')
    for cfg in (['DznDoc_quick.cfg', 'DznDoc_kinds.cfg', 'DznDoc_ns.cfg'] if tier == 'quick' else
                ['DznDoc_thorough.cfg', 'DznDoc_kinds.cfg', 'DznDoc_ns8.cfg']):
        res = chk.tlc('DznDocMC', cfg, timeout=3000)
        cases = res.emitted()
        if not cases:
            raise core.MachineryError(f'{cfg}: no cases emitted')
        chk.sample(cases[len(cases) // 2])
        replay_parallel(chk, cases, replay_doc_case, cfg, lambda c: json.dumps(c['doc']))
        chk.traces += len(cases)
    rng = random.Random(seed)
    traces = [_quiet(record_parse_trace, rng, f'r{seed}-{i}') for i in range(1500 if tier == 'quick' else 20000)]
    chk.sample({'recorded_trace': traces[1]})
    report_rejections(chk, 'DznDocTrace', 'DznDocTrace.cfg', traces, 'random documents')
    for trc in traces:
        chk.count(('trace', trc['id']))
    # long scope chains: every enclosing namespace is part of the fully qualified name, however many there are
    for depth in (40, 101, 150, 260):
        idents = [f'n{k}' for k in range(depth)]
        doc = [{'t': 'open', 'ids': [i]} for i in idents] + [{'t': 'decl', 'kind': 'enum', 'name': ['E'], 'pay': 'p0', 'types': []}] + \
              [{'t': 'close'}] * depth
        chk.count(('deep-fqn', depth))
        try:
            from dznpy import json_ast  # pylint: disable=import-outside-toplevel
            fct = _quiet(lambda: json_ast.DznJsonAst(dzn.doc_to_json(doc)).process())   # pylint: disable=cell-var-from-loop
            got = [list(e.fqn.items) for e in fct.enums]
        except Exception as exc:  # pylint: disable=broad-except
            got = f'{type(exc).__name__}'
        if got != [idents + ['E']] and got != 'DznJsonError':
            chk.violation(f'enum declared inside {depth} nested namespaces: fully qualified name has '
                          f'{len(got[0]) if isinstance(got, list) and got else got} identifiers instead of {depth + 1}',
                          {'depth': depth, 'observed': got if not isinstance(got, list) else [g[:3] + ['...'] + g[-3:] for g in got]})
    chk.exhaustive = True
    chk.assumptions = ['payloads are opaque in the model; that the parsed payload equals the written one is decided by '
                       'the harness unparser (harness/dzn.py), which is independent of dznpy',
                       'documents are those the Dezyne grammar can produce (well-formed JSON AST)']
    return chk.finish()


# ----------------------------------------------------------------------------------------------
# C16
# ----------------------------------------------------------------------------------------------

def replay_lifecycle(args):
    case, docs, tmpdir = args
    core.repo_guard()
    from dznpy import json_ast, scoping  # pylint: disable=import-outside-toplevel
    inst = {}
    try:
        for op in case['hist']:
            i = op['i']
            if op['op'] == 'new':
                inst[i] = json_ast.DznJsonAst(None if op['d'] == 'none' else docs[op['d']]['json'])
            elif op['op'] == 'load':
                # every load goes through ONE path whose file is rewritten (a regenerated model file)
                path = os.path.join(tmpdir, f'current-{os.getpid()}.json')
                with open(path, 'wb') as fil:
                    fil.write(docs[op['d']]['json'])
                ret = inst[i].load_file(path)
                if ret is not inst[i]:
                    return [('load_file returns self', True, False)]
            else:
                try:
                    fct = _quiet(inst[i].process)
                    got = ('ok', dzn.project(fct, docs[op['expect']]['tokens'] if op['expect'] in docs else []))
                except (json_ast.DznJsonError, scoping.NamespaceIdsTypeError):
                    got = ('error', None)
                if op['expect'] == 'error':
                    if got[0] != 'error':
                        return [('process() of a refused/absent document', 'error', got[0])]
                else:
                    exp = docs[op['expect']]['out']['fc']
                    if got[0] != 'ok':
                        return [('process()', 'ok', 'error')]
                    diff = [c for c in exp if exp[c] != got[1].get(c)]
                    if diff:
                        return [(f'process() result, container {diff[0]}', exp[diff[0]], got[1].get(diff[0]))]
        return []
    except Exception as exc:  # pylint: disable=broad-except
        return [('exception', None, f'{type(exc).__name__}: {exc}')]


def record_lifecycle_trace(rng, tid, tmpdir):
    core.repo_guard()
    from dznpy import json_ast, scoping  # pylint: disable=import-outside-toplevel
    docs = [rand_doc(rng, 8, broken=0.08 if k == 2 else 0.0) for k in range(3)]
    paths = []
    shared = rng.random() < 0.5            # one path, rewritten before every load (a regenerated file)
    for k, doc in enumerate(docs):
        path = os.path.join(tmpdir, f'{tid}-shared.json' if shared else f'{tid}-{k}.json')
        with open(path, 'wb') as fil:
            fil.write(dzn.doc_to_json(doc))
        paths.append(path)
    events, inst, held = [], {}, {}
    empty = {a: [] for a, _ in dzn.CONTAINERS}
    for _ in range(rng.randint(3, 9)):
        i = rng.choice(['1', '2', '3'])
        kind = rng.choice(['new', 'load', 'process', 'process']) if i in inst else 'new'
        k = rng.randrange(3)
        if kind == 'new':
            has = rng.random() < 0.8
            inst[i] = json_ast.DznJsonAst(dzn.doc_to_json(docs[k]) if has else None)
            held[i] = docs[k] if has else None
            events.append({'op': 'new', 'i': i, 'has': has, 'doc': spec_tokens(docs[k]) if has else []})
        elif kind == 'load':
            with open(paths[k], 'wb') as fil:
                fil.write(dzn.doc_to_json(docs[k]))
            inst[i].load_file(paths[k])
            held[i] = docs[k]
            events.append({'op': 'load', 'i': i, 'doc': spec_tokens(docs[k])})
        else:
            try:
                fct = _quiet(inst[i].process)
                obs = {'ok': True, 'fc': dzn.project(fct, held[i] or [])}
            except (json_ast.DznJsonError, scoping.NamespaceIdsTypeError):
                obs = {'ok': False, 'fc': empty}
            events.append({'op': 'process', 'i': i, 'obs': obs})
    for path in set(paths):
        os.unlink(path)
    return {'id': tid, 'events': events}


def check_c16(tier, seed):
    chk = core.Check('C16', tier, seed)
    core.repo_guard()
    chk.rule = ('TLC enumerates every history of <=5/6 constructor/load_file/process() calls over 2 parser instances and '
                '3 documents (two good, one refused) plus "no document"; each history ending in process() is replayed on '
                'real DznJsonAst instances and every process() result compared with the model (= parse of that '
                'instance\'s own document). Random life cycles over random documents are validated by DznDocTrace.tla.')
    res = chk.tlc('ParserLifecycleMC', f'ParserLifecycle_{tier}.cfg', coverage=False, timeout=3000)
    emitted = res.emitted()
    docs = [e for e in emitted if 'docs' in e][0]['docs']
    hists = [e for e in emitted if 'hist' in e]
    tmpdir = core.subdir('c16')
    for did, doc in docs.items():
        doc['json'] = dzn.doc_to_json(doc['tokens'])
        with open(os.path.join(tmpdir, did + '.json'), 'wb') as fil:
            fil.write(doc['json'])
        # the model's verdict on each document must agree with a fresh-instance parse
        status, proj = _quiet(dzn.parse_tokens, doc['tokens'])
        if (status == 'ok') != doc['out']['ok'] or (status == 'ok' and proj != doc['out']['fc']):
            chk.violation(f'fresh parse of document {did} differs from the model', {'doc': did, 'got': proj,
                                                                                    'model': doc['out']})
    chk.sample(hists[len(hists) // 2])
    replay_parallel(chk, [(h, docs, tmpdir) for h in hists], replay_lifecycle, 'lifecycle',
                    lambda a: json.dumps(a[0]['hist']))
    chk.traces += len(hists)
    rng = random.Random(seed + 16)
    traces = [record_lifecycle_trace(rng, f'l{seed}-{i}', tmpdir) for i in range(1200 if tier == 'quick' else 15000)]
    chk.sample({'recorded_trace': traces[0]})
    report_rejections(chk, 'DznDocTrace', 'DznDocTrace.cfg', traces, 'random life cycles')
    for trc in traces:
        chk.count(('trace', trc['id']))
    chk.exhaustive = True
    chk.assumptions = ['documents are loaded through load_file from temporary files or given to the constructor',
                       'result comparison uses the complete projection of FileContents (harness/dzn.py)']
    return chk.finish()


# ----------------------------------------------------------------------------------------------
# C15
# ----------------------------------------------------------------------------------------------

BASE_DOCS = [
    [{'t': 'decl', 'kind': 'import', 'name': ['Types'], 'pay': 'p0', 'types': []},
     {'t': 'decl', 'kind': 'file-name', 'name': ['M'], 'pay': 'p0', 'types': []},
     {'t': 'open', 'ids': ['My', 'Ns']},
     {'t': 'decl', 'kind': 'extern', 'name': ['X'], 'pay': 'p1', 'types': []},
     {'t': 'decl', 'kind': 'interface', 'name': ['I'], 'pay': 'p1',
      'types': [{'kind': 'enum', 'name': ['E'], 'pay': 'p0'}, {'kind': 'subint', 'name': ['S'], 'pay': 'p1'}]},
     {'t': 'decl', 'kind': 'component', 'name': ['C'], 'pay': 'p1', 'types': []},
     {'t': 'open', 'ids': ['Sub']},
     {'t': 'decl', 'kind': 'system', 'name': ['Sys'], 'pay': 'p0', 'types': []},
     {'t': 'close'},
     {'t': 'close'},
     {'t': 'decl', 'kind': 'foreign', 'name': ['F'], 'pay': 'p0', 'types': []},
     {'t': 'decl', 'kind': 'enum', 'name': ['G'], 'pay': 'p0', 'types': []},
     {'t': 'decl', 'kind': 'subint', 'name': ['R'], 'pay': 'p0', 'types': []}],
    [{'t': 'decl', 'kind': 'interface', 'name': ['J'], 'pay': 'p0', 'types': []},
     {'t': 'decl', 'kind': 'component', 'name': ['D'], 'pay': 'p0', 'types': []}],
]
JSON_VALUES = {'null': None, 'bool': True, 'int': 7, 'float': 1.5, 'str': 'text', 'list': [], 'dict': {}}


STR_SHAPES = {'empty': '', 'digits': '12', 'neg-digits': '-3', 'double-minus': '--1', 'superscript': '\u00b2',
              'circled': '\u2460', 'minus-only': '-', 'space-digits': ' 7', 'float-text': '1.5', 'bool-text': 'true',
              'null-text': 'null', 'plus-digits': '+4', 'underscore-digits': '1_0'}


def nodes_of(tree, pos='root', path=()):
    """Yield (path, node, pos) for every dict node with a <class>."""
    if isinstance(tree, dict):
        if '<class>' in tree:
            yield path, tree, pos
        for key, val in tree.items():
            cls = tree.get('<class>')
            if key == 'elements' and isinstance(val, list):
                sub = 'element' if cls in ('root', 'namespace') else ('type' if cls == 'types' else 'asserted')
                for i, item in enumerate(val):
                    yield from nodes_of(item, sub, path + (key, i))
            else:
                yield from nodes_of(val, 'asserted', path + (key,))


def every_path(tree, path=()):
    """Every path to a replaceable position (dict values and list items)."""
    if isinstance(tree, dict):
        for key, val in tree.items():
            yield path + (key,)
            yield from every_path(val, path + (key,))
    elif isinstance(tree, list):
        for i, val in enumerate(tree):
            yield path + (i,)
            yield from every_path(val, path + (i,))


def get_at(tree, path):
    for step in path:
        tree = tree[step]
    return tree


def apply_fault(tree, fault, path):
    """Return a faulted deep copy of tree (fault applied at the node found at path), or None if n/a."""
    tree = copy.deepcopy(tree)
    node = get_at(tree, path)
    kind, key, arg = fault['kind'], fault['key'], fault['arg']
    if kind == 'delete-key':
        if key not in node:
            return None
        del node[key]
    elif kind == 'retype':
        if key not in node:
            if arg == 'null':
                return None
        node[key] = copy.deepcopy(JSON_VALUES[arg])
    elif kind == 'retype-str':
        if key not in node:
            return None
        node[key] = STR_SHAPES[arg]
    elif kind == 'delete-class':
        del node['<class>']
    elif kind == 'retag':
        node['<class>'] = arg
    elif kind == 'retype-class':
        node['<class>'] = copy.deepcopy(JSON_VALUES[arg])
    elif kind == 'bad-identifier':
        bad = {'digit-first': '1x', 'empty-string': '', 'with-space': 'a b', 'non-string': 5,
               'trailing-newline': 'ab\n', 'nested-list': ['a'], 'nested-dict': {}, 'null': None, 'bool': True,
               'non-ascii': 'caf\u00e9'}[arg]
        node['ids'] = list(node['ids'][:-1]) + [bad]
    elif kind == 'empty-ids':
        node['ids'] = []
    elif kind == 'bad-word':
        if key not in node:
            return None
        node[key] = arg
    elif kind == 'out-event-valued':
        if node.get('direction') != 'out':
            return None
        node['signature']['type_name']['ids'] = arg.split('.')
    elif kind == 'out-event-valued-case':
        if node.get('direction') != 'out':
            return None
        node['direction'] = arg
        node['signature']['type_name']['ids'] = ['bool']
    elif kind == 'out-event-out-param-case':
        if node.get('direction') != 'out' or not node['signature']['formals']['elements']:
            return None
        node['direction'] = arg
        node['signature']['formals']['elements'][0]['direction'] = 'out'
    elif kind in ('out-event-out-param', 'out-event-inout-param'):
        if node.get('direction') != 'out' or not node['signature']['formals']['elements']:
            return None
        node['signature']['formals']['elements'][0]['direction'] = 'out' if kind == 'out-event-out-param' else 'inout'
    elif kind in ('element-non-dict', 'item-non-dict'):
        if not node['elements']:
            node['elements'].append(copy.deepcopy(JSON_VALUES[arg]))
        else:
            node['elements'][0] = copy.deepcopy(JSON_VALUES[arg])
    elif kind == 'none':
        pass
    else:
        raise ValueError(kind)
    return tree


def outcome_of(tree):
    """Run the real parser on a JSON tree under a watchdog-free call; classify the outcome."""
    core.repo_guard()
    from dznpy import json_ast, scoping  # pylint: disable=import-outside-toplevel
    try:
        _quiet(lambda: json_ast.DznJsonAst(json.dumps(tree).encode('utf-8')).process())
        return 'ok'
    except json_ast.DznJsonError:
        return 'DznJsonError'
    except scoping.NamespaceIdsTypeError:
        return 'NamespaceIdsTypeError'
    except RecursionError:
        return 'internal:RecursionError'
    except Exception as exc:  # pylint: disable=broad-except
        return f'internal:{type(exc).__name__}'


def rand_json(rng, depth=3):
    r = rng.random()
    if depth <= 0 or r < 0.4:
        return rng.choice([None, True, 0, -1, 2.5, '', 'root', 'a b', '<class>', 'x' * 3, 2 ** 40, 'void', 'id', 'in', 'out',
                           'provides', 'a\n', 'A'])
    if r < 0.7:
        return [rand_json(rng, depth - 1) for _ in range(rng.randint(0, 3))]
    keys = ['<class>', 'elements', 'name', 'ids', 'working-directory', 'ports', 'types', 'events', 'direction', 'k']
    out = {}
    for _ in range(rng.randint(0, 4)):
        key = rng.choice(keys)
        out[key] = rng.choice(['root', 'namespace', 'component', 'interface', 'scope_name', 'enum']) \
            if key == '<class>' and rng.random() < 0.8 else rand_json(rng, depth - 1)
    return out


def check_c15(tier, seed):
    chk = core.Check('C15', tier, seed, level='fault_enumeration')
    core.repo_guard()
    chk.rule = ('TLC enumerates the fault catalogue of ParserFaults.tla (delete/retype every key of every element class '
                'to each JSON type, delete/retag/retype <class>, bad identifiers, empty ids, bad direction words, the two '
                'out-event rules, non-dict elements) with the verdict Expected; the harness applies every fault class at '
                'every matching node of its base documents (and random pairs), runs the real parser and records the '
                'outcome; ParserFaults.tla (trace mode) accepts only documented outcomes consistent with Expected. '
                'distinct = distinct (fault class, node) pairs plus random documents.')
    res = chk.tlc('ParserFaults', 'ParserFaults_enum.cfg', workers=4)
    faults = res.emitted()
    trees = [dzn.doc_to_tree(doc) for doc in BASE_DOCS]
    trees[0]['comment'] = {'<class>': 'comment', 'string': '// c'}
    events, used = [], set()
    for tnum, tree in enumerate(trees):
        nodes = list(nodes_of(tree))
        for fnum, ent in enumerate(faults):
            fault = ent['fault']
            for path, node, pos in nodes:
                if node.get('<class>') != fault['cls']:
                    continue
                faulted = apply_fault(tree, fault, path)
                if faulted is None:
                    continue
                used.add(fnum)
                pos_eff = 'asserted' if pos == 'root' else pos
                events.append(dict(fault, pos=pos_eff, outcome=outcome_of(faulted), doc=tnum, path=list(path)))
                chk.count((tnum, fnum, path))
    # conformance with the catalogue's verdicts (informational: the statement allows "contents or documented error")
    verdict = {json.dumps(f['fault'], sort_keys=True): f for f in faults}
    for evt in events:
        ent = verdict.get(json.dumps({k: evt[k] for k in ('kind', 'cls', 'key', 'arg')}, sort_keys=True))
        if ent is None:
            continue
        exp = ent[evt['pos']]
        if (exp == 'reject' and evt['outcome'] == 'ok') or (exp == 'accept' and evt['outcome'] != 'ok'):
            chk.disagreements_checked += 1
            if chk.disagreements_checked <= 5:
                chk.notes.append(f'catalogue verdict {exp} but outcome {evt["outcome"]} for {evt["kind"]} {evt["cls"]}.{evt["key"]} {evt["arg"]}')
    unused = [faults[i]['fault'] for i in range(len(faults)) if i not in used]
    chk.extra['fault_classes'] = len(faults)
    chk.extra['fault_classes_never_instantiated'] = len(unused)
    chk.notes.append('never instantiated: ' + json.dumps(unused[:6]))
    if len(unused) > len(faults) // 4:
        raise core.MachineryError(f'{len(unused)} of {len(faults)} fault classes never applied')
    # pairs of faults and arbitrary JSON: only "documented outcome or success"
    rng = random.Random(seed + 15)
    flat = []
    for tnum, tree in enumerate(trees):
        nodes = list(nodes_of(tree))
        for ent in faults:
            for path, node, _ in nodes:
                if node.get('<class>') == ent['fault']['cls']:
                    flat.append((tnum, ent['fault'], path))
    npairs = 4000 if tier == 'quick' else 60000
    for _ in range(npairs):
        (t1, f1, p1), (t2, f2, p2) = rng.choice(flat), rng.choice(flat)
        if t1 != t2:
            continue
        one = apply_fault(trees[t1], f1, p1)
        if one is None:
            continue
        try:
            if get_at(one, p2).get('<class>') is None:
                continue
            two = apply_fault(one, f2, p2)
        except (KeyError, IndexError, TypeError, AttributeError):
            continue
        if two is None:
            continue
        events.append({'kind': 'arbitrary', 'cls': '', 'key': '', 'arg': '', 'pos': 'asserted',
                       'outcome': outcome_of(two), 'pair': [f1, list(p1), f2, list(p2)], 'doc': t1})
        chk.count(('pair', t1, json.dumps([f1, p1, f2, p2])))
    allpaths = []
    for tnum, tree in enumerate(trees):
        allpaths.extend((tnum, pth) for pth in every_path(tree))
    for i in range(6000 if tier == 'quick' else 100000):
        tnum, pth = rng.choice(allpaths)
        tree = copy.deepcopy(trees[tnum])
        parent = get_at(tree, pth[:-1])
        parent[pth[-1]] = rand_json(rng, 2)
        events.append({'kind': 'arbitrary', 'cls': '', 'key': '', 'arg': '', 'pos': 'asserted',
                       'outcome': outcome_of(tree), 'doc': tnum, 'path': list(pth), 'replaced_by': parent[pth[-1]]})
        chk.count(('subtree', i))
    for i in range(2000 if tier == 'quick' else 40000):
        val = rand_json(rng)
        if rng.random() < 0.5:
            val = {'<class>': 'root', 'working-directory': 'w', 'elements': val if isinstance(val, list) else [val]}
        events.append({'kind': 'arbitrary', 'cls': '', 'key': '', 'arg': '', 'pos': 'asserted',
                       'outcome': outcome_of(val), 'json': val})
        chk.count(('json', i))
    # depth: namespaces nested far beyond anything enumerated (the parser and NamespaceTree.fqn are recursive)
    for depth in (40, 150, 300, 420, 480, 505):
        inner = [{'<class>': 'enum', 'name': dzn.scope_name(['E']), 'fields': {'<class>': 'fields', 'elements': ['a']}}]
        for k in range(depth):
            inner = [{'<class>': 'namespace', 'name': dzn.scope_name([f'N{k}']), 'elements': inner}]
        events.append({'kind': 'arbitrary', 'cls': '', 'key': '', 'arg': '', 'pos': 'asserted',
                       'outcome': outcome_of({'<class>': 'root', 'elements': inner, 'working-directory': 'w'}),
                       'deep_nesting': depth})
        chk.count(('depth', depth))
    chk.sample(events[0])
    chk.sample(events[len(events) // 3])
    slim = [{k: e[k] for k in ('kind', 'cls', 'key', 'arg', 'pos', 'outcome')} for e in events]
    traces = [{'id': f'f{k}', 'events': slim[k:k + 4]} for k in range(0, len(slim), 4)]
    rejected = core.validate_traces(chk, 'ParserFaults', 'ParserFaults_trace.cfg', traces)
    chk.traces = len(events) - len(rejected)
    for trace, pos in rejected[:10]:
        evt = events[int(trace['id'][1:]) + pos - 1]
        exp = next((f for f in faults if f['fault'] == {k: evt[k] for k in ('kind', 'cls', 'key', 'arg')}), None)
        if 'deep_nesting' in evt:
            chk.violation(f'{evt["deep_nesting"]} nested namespaces: outcome {evt["outcome"]} is not a documented error',
                          {'event': evt, 'spec': 'ParserFaults.tla'})
            continue
        chk.violation(f'fault {evt["kind"]} {evt["cls"]}.{evt["key"]} {evt["arg"]} at {evt.get("path")}: outcome '
                      f'{evt["outcome"]} is not allowed (model verdict: {exp[evt["pos"]] if exp else "documented outcome only"})',
                      {'event': evt, 'spec': 'ParserFaults.tla', 'base_doc': evt.get('doc')})
    chk.assumptions = ['inputs are syntactically valid JSON (orjson rejects anything else before the parser runs)',
                       '"reject"/"accept" verdicts apply to single faults on the harness base documents, where every node '
                       'is reached by the parser; for pairs and arbitrary JSON only the exception class is judged']
    return chk.finish()


# ----------------------------------------------------------------------------------------------
# C14
# ----------------------------------------------------------------------------------------------

def env_doc(decls):
    """Abstract document declaring each [kind, fqn] in the namespace formed by the front of its fqn; an enum / subint /
    extern whose front is the fqn of an interface of the set is written as a local type of (the first) such interface."""
    toks = []
    itf_at = {}
    for i, dcl in enumerate(decls):
        if dcl['kind'] == 'interface':
            itf_at.setdefault(tuple(dcl['fqn']), i)
    local = {}
    for i, dcl in enumerate(decls):
        if dcl['kind'] in ('enum', 'subint', 'extern') and tuple(dcl['fqn'][:-1]) in itf_at:
            local.setdefault(itf_at[tuple(dcl['fqn'][:-1])], []).append(i)
    nested = {i for lst in local.values() for i in lst}
    for i, dcl in enumerate(decls):
        if i in nested:
            continue
        front, last = dcl['fqn'][:-1], dcl['fqn'][-1:]
        for ident in front:
            toks.append({'t': 'open', 'ids': [ident]})
        toks.append({'t': 'decl', 'kind': dcl['kind'], 'name': dcl['fqn'] if dcl['kind'] in ('import', 'file-name') else last,
                     'pay': 'p0', 'types': [{'kind': decls[j]['kind'], 'name': decls[j]['fqn'][-1:], 'pay': 'p0'}
                                            for j in local.get(i, [])]})
        toks.extend({'t': 'close'} for _ in front)
    return toks


def found_list(result):
    kinds = {'Component': 'component', 'Enum': 'enum', 'Extern': 'extern', 'Foreign': 'foreign',
             'Interface': 'interface', 'SubInt': 'subint', 'System': 'system'}
    return [{'kind': kinds[type(x).__name__], 'fqn': list(x.fqn.items)} for x in result.items]


def _canon(lst):
    return sorted(json.dumps(x, sort_keys=True) for x in lst)


def replay_scoping_case(case):
    core.repo_guard()
    from dznpy import json_ast, ast_view, scoping  # pylint: disable=import-outside-toplevel
    bad = []
    try:
        if case['mode'] == 'lookup':
            fct = json_ast.DznJsonAst(dzn.doc_to_json(env_doc(case['decls']))).process()
            name, scope = scoping.NamespaceIds(list(case['name'])), scoping.NamespaceIds(list(case['scope']))
            result = ast_view.find_fqn(fct, name, scope)
            got = found_list(result)
            if _canon(got) != _canon(case['found']):
                bad.append(('find_fqn', case['found'], got))
            # the query functions of the result agree with the model's set of found declarations
            from dznpy import ast as dast  # pylint: disable=import-outside-toplevel
            klass = {'component': dast.Component, 'enum': dast.Enum, 'extern': dast.Extern, 'foreign': dast.Foreign,
                     'interface': dast.Interface, 'subint': dast.SubInt, 'system': dast.System}
            want = case['found']
            if result.has_one_instance() != (len(want) == 1):
                bad.append(('FindResult.has_one_instance()', len(want) == 1, result.has_one_instance()))
            for kind, cls in klass.items():
                exp = len(want) == 1 and want[0]['kind'] == kind
                if result.has_one_instance(cls) != exp:
                    bad.append((f'FindResult.has_one_instance({kind})', exp, result.has_one_instance(cls)))
                try:
                    one = result.get_single_instance(cls)
                    single = {'kind': kind, 'fqn': list(one.fqn.items)} if isinstance(one, cls) else 'wrong-kind-returned'
                except ast_view.FindError:
                    single = None
                if single != (want[0] if exp else None):
                    bad.append((f'FindResult.get_single_instance({kind})', want[0] if exp else 'FindError', single))
            if name.items != case['name'] or scope.items != case['scope']:
                bad.append(('find_fqn mutated its arguments', [case['name'], case['scope']], [name.items, scope.items]))
            if not case['scope']:
                got = found_list(ast_view.find_fqn(fct, name))
                if _canon(got) != _canon(case['found']):
                    bad.append(('find_fqn without calling scope', case['found'], got))
            got = found_list(ast_view.find_any(fct, name))
            if _canon(got) != _canon(case['any']):
                bad.append(('find_any', case['any'], got))
            got = [list(x.items) for x in scoping.scope_resolution_order(name, scope)]
            if got != case['order']:
                bad.append(('scope_resolution_order', case['order'], got))
            if scope.items != case['scope']:
                bad.append(('scope_resolution_order mutated the calling scope', case['scope'], scope.items))
            return bad

        def attempt(fn):
            try:
                val = fn()
                return {'ok': True, 'items': [[ord(c) for c in it] for it in val.items]}
            except scoping.NamespaceIdsTypeError:
                return {'ok': False, 'items': []}
        if case['mode'] == 'notation':
            text = ''.join(chr(c) for c in case['str'])
            got = attempt(lambda: scoping.namespaceids_t(text))
            if got != case['r']:
                bad.append((f'namespaceids_t({text!r})', case['r'], got))
            return bad
        items = [''.join(chr(c) for c in it) for it in case['lst']]
        got = attempt(lambda: scoping.namespaceids_t(list(items)))
        if got != case['r']:
            bad.append((f'namespaceids_t({items!r})', case['r'], got))
        got = attempt(lambda: scoping.NamespaceIds(list(items)))
        if got != case['r']:
            bad.append((f'NamespaceIds({items!r})', case['r'], got))
        if case['r']['ok']:
            from dznpy import cpp_gen  # pylint: disable=import-outside-toplevel
            nsi = scoping.NamespaceIds(list(items))
            dotted, coloned = [ord(c) for c in str(nsi)], [ord(c) for c in str(cpp_gen.Fqn(nsi))]
            if dotted != case['dotted']:
                bad.append(('str(NamespaceIds)', case['dotted'], dotted))
            if coloned != case['coloned']:
                bad.append(('str(Fqn)', case['coloned'], coloned))
            for text in (str(nsi), str(cpp_gen.Fqn(nsi))):
                back = scoping.namespaceids_t(text).items
                if back != items:
                    bad.append((f'round trip through {text!r}', items, back))
            # the same identifiers given as a tuple: refused, or a value that is indistinguishable from the list-built one
            for how, make in (('namespaceids_t', scoping.namespaceids_t), ('NamespaceIds', lambda t: scoping.NamespaceIds(items=t))):
                try:
                    tup = make(tuple(items))
                except (scoping.NamespaceIdsTypeError, TypeError):
                    continue
                if not (tup == nsi and str(tup) == str(nsi) and list(tup.items) == items and isinstance(tup.items, list)):
                    bad.append((f'{how}(tuple) handed out', f'refused, or equal to the list-built {items!r}', repr(tup)))
            # a value that was handed out and then extended in place by its holder does not change what is handed out next
            if items:
                mine = scoping.namespaceids_t(str(nsi))
                mine += scoping.namespaceids_t('zz')
                again = scoping.namespaceids_t(str(nsi)).items
                if again != items:
                    bad.append((f'namespaceids_t({str(nsi)!r}) after an earlier result was extended in place', items, again))
        else:
            pass
        empty = scoping.namespaceids_t('')
        if empty.items:
            bad.append(("namespaceids_t('')", [], list(empty.items)))
        else:
            empty += scoping.namespaceids_t('zz')
            if scoping.namespaceids_t('').items or scoping.ns_ids_t([]).items:
                bad.append(("namespaceids_t('') after an earlier empty result was extended in place", [],
                            [list(scoping.namespaceids_t('').items), list(scoping.ns_ids_t([]).items)]))
        return bad
    except Exception as exc:  # pylint: disable=broad-except
        return [('exception', None, f'{type(exc).__name__}: {exc}')]


def record_scoping_trace(rng, tid):
    core.repo_guard()
    from dznpy import json_ast, ast_view, scoping  # pylint: disable=import-outside-toplevel
    pool = ['My', 'Pro', 'Project', 'a', 'A', 'I', 'x_1']
    decls = []
    seen = set()
    for _ in range(rng.randint(1, 9)):
        fqn = [rng.choice(pool) for _ in range(rng.randint(1, 4))]
        kind = rng.choice(['component', 'enum', 'extern', 'foreign', 'interface', 'subint', 'system', 'import'])
        if (kind, tuple(fqn)) in seen:
            continue
        seen.add((kind, tuple(fqn)))
        decls.append({'kind': kind, 'fqn': fqn})
    fct = json_ast.DznJsonAst(dzn.doc_to_json(env_doc(decls))).process()
    events = []
    for _ in range(rng.randint(2, 6)):
        base = rng.choice(decls)['fqn']
        cut = rng.randint(0, len(base) - 1)
        name = base[cut:] if rng.random() < 0.8 else [rng.choice(pool)]
        scope = (base[:cut] if rng.random() < 0.6 else [rng.choice(pool) for _ in range(rng.randint(0, 3))])
        if rng.random() < 0.3:
            scope = scope + [rng.choice(pool)]
        nsn, nss = scoping.NamespaceIds(list(name)), scoping.NamespaceIds(list(scope))
        kind = rng.choice(['find_fqn', 'find_fqn', 'find_any', 'order'])
        if kind == 'find_fqn':
            events.append({'op': kind, 'decls': decls, 'name': name, 'scope': scope,
                           'obs': found_list(ast_view.find_fqn(fct, nsn, nss))})
        elif kind == 'find_any':
            events.append({'op': kind, 'decls': decls, 'name': name, 'scope': [],
                           'obs': found_list(ast_view.find_any(fct, nsn))})
        else:
            events.append({'op': kind, 'decls': [], 'name': name, 'scope': scope,
                           'obs': [list(x.items) for x in scoping.scope_resolution_order(nsn, nss)]})
    return {'id': tid, 'events': events}


def check_c14(tier, seed):
    chk = core.Check('C14', tier, seed)
    core.repo_guard()
    chk.rule = ('TLC enumerates every searched name (1..2/3 identifiers over {a,b,c}), calling scope (depth 0..2/3), and '
                'subset of the relevant declarations (chain candidates + 4 distractors + imports/file names, kinds '
                'rotated); LookupLaw is a TLC invariant; each case is built through the real parser and find_fqn, '
                'find_any and scope_resolution_order are compared as multisets/sequences. Every string up to length 3/4 '
                'over 10 characters and every list of <=3 strings is fed to namespaceids_t/NamespaceIds. Also: interface-local types (rot=2), FindResult.has_one_instance / get_single_instance against the model\'s found set.')
    lookups = ['ScopingCases_lookup.cfg'] if tier == 'quick' else ['ScopingCases_lookup3.cfg']
    notes = ['ScopingCases_notation.cfg' if tier == 'quick' else 'ScopingCases_notation4.cfg', 'ScopingCases_idlist.cfg']
    for cfg in lookups + notes:
        res = chk.tlc('ScopingCases', cfg, timeout=3000)
        cases = res.emitted()
        if not cases:
            raise core.MachineryError(f'{cfg}: no cases emitted')
        chk.sample(cases[len(cases) // 2])
        replay_parallel(chk, cases, replay_scoping_case, cfg, lambda c: json.dumps(c, sort_keys=True))
    rng = random.Random(seed + 14)
    traces = [record_scoping_trace(rng, f'q{seed}-{i}') for i in range(1500 if tier == 'quick' else 20000)]
    chk.sample({'recorded_trace': traces[0]})
    report_rejections(chk, 'ScopingTrace', 'ScopingTrace.cfg', traces, 'random lookups')
    for trc in traces:
        chk.count(('trace', trc['id']))
    chk.exhaustive = True
    chk.assumptions = ['the declaration environment is built through the real parser (so fqns are the parser\'s, C05)',
                       'results are compared as multisets: the order in which find_fqn lists declarations is not part '
                       'of the property']
    return chk.finish()
