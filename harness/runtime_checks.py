"""C01, C02, C04 (sequential histories), C09, C10: executions of the real compiled shell, driven by command scripts,
validated by ShellRuntimeTrace.tla; plus TLC-generated behaviours of ShellRuntimeMC.tla replayed on the compiled shell."""
import json
import os
import random
import re

from . import core, cxx, cxxgen, model, shell

T1, T2 = '::vt::T1', '::vt::T2'


# ----------------------------------------------------------------------------------------------
# model generation (well-formed Dezyne models, valid configurations)
# ----------------------------------------------------------------------------------------------

def F(name, typ, direction='in'):
    return {'name': name, 'type': [typ], 'dir': direction}


IN_SHAPES = [
    lambda n: {'name': n, 'dir': 'in', 'reply': ['void'], 'formals': []},
    lambda n: {'name': n, 'dir': 'in', 'reply': ['void'], 'formals': [F('a', 'T')]},
    lambda n: {'name': n, 'dir': 'in', 'reply': ['bool'], 'formals': [F('a', 'T'), F('b', 'U', 'out')]},
    lambda n: {'name': n, 'dir': 'in', 'reply': ['Res'], 'formals': [F('a', 'U'), F('b', 'T', 'inout')]},
    lambda n: {'name': n, 'dir': 'in', 'reply': ['void'], 'formals': [F('x', 'T', 'inout'), F('y', 'T', 'out')]},
    lambda n: {'name': n, 'dir': 'in', 'reply': ['bool'], 'formals': [F('a', 'T'), F('b', 'U')]},
    # out / inout parameters declared BEFORE in parameters of the same C++ type (argument order must survive)
    lambda n: {'name': n, 'dir': 'in', 'reply': ['void'], 'formals': [F('r', 'T', 'out'), F('k', 'T')]},
    lambda n: {'name': n, 'dir': 'in', 'reply': ['bool'], 'formals': [F('x', 'T', 'inout'), F('k', 'T'), F('z', 'T', 'out')]},
    # a parameter whose extern maps to a C++ reference type
    lambda n: {'name': n, 'dir': 'in', 'reply': ['void'], 'formals': [F('s', 'R'), F('t', 'T')]},
]
OUT_SHAPES = [
    lambda n: {'name': n, 'dir': 'out', 'reply': ['void'], 'formals': []},
    lambda n: {'name': n, 'dir': 'out', 'reply': ['void'], 'formals': [F('a', 'T')]},
    lambda n: {'name': n, 'dir': 'out', 'reply': ['void'], 'formals': [F('a', 'U'), F('b', 'T')]},
    lambda n: {'name': n, 'dir': 'out', 'reply': ['void'], 'formals': [F('a', 'T'), F('b', 'T'), F('c', 'T')]},
    lambda n: {'name': n, 'dir': 'out', 'reply': ['void'], 'formals': [F('s', 'R'), F('t', 'R')]},
]
IN_NAMES = ['Go', 'Stop', 'Set', 'Get', 'Toast', 'Initialize', 'cancel']
OUT_NAMES = ['Done', 'Fail', 'Ok', 'changed', 'Tick']
CLAIM_NAMES = ['Claim', 'Acquire', 'Lock', 'TryLock', 'Reserve']
RELEASE_NAMES = ['Release', 'Free', 'Unlock', 'UnReserve', 'Drop']
PORT_NAMES = ['api', 'hal', 'cord', 'p', 'q1', 'Led', 'timer', 'ctrl']


# claim / release names in rotation: plain ones, one a suffix of the other, and a claim whose name ends with the name of
# another in-event that is declared before it
MC_ROTATION = [('Claim', 'Release', None), ('Reserve', 'UnReserve', None), ('TryLock', 'Unlock', 'Lock'), ('Acquire', 'Free', None),
               ('Lock', 'Unlock', None), ('Get', 'Forget', None)]


def gen_model(rng, want_mc=None, nports=None, clash=False, mc_names=None, shadow=False):
    """A random well-formed model with a valid configuration; returns (decls, cfg, index of the granting value).
    clash: at least two interfaces in different namespaces spell a parameter type identically ('U') while it denotes
    different externs, and all ports are MTS so that both are looked up in one build.
    shadow: the component lives in A.B, its first interface A.I0 is referred to by its simple name, and a decoy interface
    A.B.A.I0 with the same events exists: a C++ name 'A::I0' that is not rooted at '::' denotes the decoy there."""
    cns = ['A', 'B'] if shadow else rng.choice([[], ['A'], ['A', 'B'], ['My']])
    ns_pool = [cns, cns[:-1] if cns else [], ['Lib'], ['Lib2', 'Sub']]
    if len(cns) == 2:
        ns_pool.append([cns[-1]])       # a global namespace named like the component's innermost one (shadowing in C++)
    decls = [model.new_decl('extern', ['T'], cpp=T1), model.new_decl('extern', ['R'], cpp='const ::vt::T1&')]
    fields = rng.choice([['Ok', 'No'], ['No', 'Ok', 'Busy']])
    nested_enum = rng.random() < 0.4 and not shadow
    mc_on = rng.random() < 0.5 if want_mc is None else want_mc
    nitf = rng.randint(2, 3) if clash else rng.randint(1, 3)
    itfs = []
    for k in range(nitf):
        events = []
        names_in, names_out = rng.sample(IN_NAMES, rng.randint(0, 3)), rng.sample(OUT_NAMES, rng.randint(0, 2))
        for nme in names_in:
            events.append(rng.choice(IN_SHAPES)(nme))
        for nme in names_out:
            events.append(rng.choice(OUT_SHAPES)(nme))
        rng.shuffle(events)
        itfs.append({'name': f'I{k}', 'events': events, 'ns': rng.choice(ns_pool)})
    if clash:
        itfs[0]['ns'], itfs[1]['ns'] = rng.sample([['Lib'], ['Lib2', 'Sub'], cns if cns else ['A']], 2)
        if rng.random() < 0.5:
            # ... and the two interfaces even share their simple name: only the fully qualified name tells them apart.
            # The second one gets the first one's events plus its own, so that code wired for the wrong one still compiles.
            itfs[1]['name'] = itfs[0]['name']
            have = {e['name'] for e in itfs[0]['events']}
            itfs[1]['events'] = [dict(e) for e in itfs[0]['events']] + [e for e in itfs[1]['events'] if e['name'] not in have]
        for k in (0, 1):
            have = {e['name'] for e in itfs[k]['events']}
            itfs[k]['events'].append({'name': 'SetU' if 'SetU' not in have else 'SetU2', 'dir': 'in', 'reply': ['void'],
                                      'formals': [F('u', 'U'), F('w', 'U', 'out')]})
            itfs[k]['events'].append({'name': 'GotU', 'dir': 'out', 'reply': ['void'], 'formals': [F('u', 'U')]})
    if shadow:
        itfs[0]['ns'] = ['A']
    claim = release = ''
    if mc_on:
        claim, release = rng.choice(CLAIM_NAMES), rng.choice(RELEASE_NAMES)
        if mc_names is not None:
            claim, release, extra = mc_names
            itfs[0]['events'] = [e for e in itfs[0]['events'] if e['name'] not in (claim, release, extra)]
            if extra:
                itfs[0]['events'].insert(0, IN_SHAPES[1](extra))
        cform = rng.choice([[], [F('a', 'T')], [F('a', 'T'), F('b', 'U', 'out')], [F('a', 'U', 'inout')],
                            [F('a', 'T', 'inout'), F('b', 'T', 'out')]])
        rform = rng.choice([[], [F('a', 'T')], [F('a', 'U', 'inout')]])
        mce = [{'name': claim, 'dir': 'in', 'reply': ['Res'], 'formals': cform},
               {'name': release, 'dir': 'in', 'reply': ['void'], 'formals': rform}]
        pos = rng.randint(0, len(itfs[0]['events']))
        itfs[0]['events'][pos:pos] = mce if rng.random() < 0.7 else mce[::-1]
        if not any(e['dir'] == 'out' for e in itfs[0]['events']):
            itfs[0]['events'].append(OUT_SHAPES[1]('Done'))
    # every interface namespace has its own extern U (same simple name, different C++ type)
    seen_ns = []
    for itf in itfs:
        if itf['ns'] not in seen_ns:
            seen_ns.append(itf['ns'])
            decls.append(model.new_decl('extern', itf['ns'] + ['U'], cpp='::vt::U' + (''.join(itf['ns']) or 'G')))
    # the reply enum lives next to (or inside) the first interface and is referred to from the others fully qualified
    enum_fqn = (itfs[0]['ns'] + ['I0', 'Res']) if nested_enum else (itfs[0]['ns'] + ['Res'])
    decls.append(model.new_decl('enum', enum_fqn, fields=fields))
    for itf in itfs:
        for evt in itf['events']:
            if evt['reply'] == ['Res'] and (itf is not itfs[0]):
                evt['reply'] = list(enum_fqn)
        decls.append(model.new_decl('interface', itf['ns'] + [itf['name']], events=itf['events']))
    if shadow:
        decls.append(model.new_decl('interface', ['A', 'B', 'A', itfs[0]['name']], events=[dict(e) for e in itfs[0]['events']]))
    nports = nports or (rng.randint(2, 4) if clash else rng.randint(1, 4))
    names = rng.sample(PORT_NAMES, nports)
    ports = []
    for i, nme in enumerate(names):
        itf = itfs[0] if (i == 0 and mc_on) else rng.choice(itfs)
        if clash and i < 2:
            itf = itfs[i]
        direction = 'provides' if (i == 0 and (mc_on or rng.random() < 0.7)) else rng.choice(['provides', 'requires', 'requires'])
        full = itf['ns'] + [itf['name']]
        visible_simple = itf['ns'] == cns[:len(itf['ns'])]           # declared in the component's scope or an enclosing one
        spelled = rng.choice([[itf['name']], full]) if visible_simple else full
        if shadow and itf is itfs[0]:
            spelled = [itf['name']]          # 'A.I0' would be ambiguous for Dezyne (A.B.A.I0 and A.I0 are both on the chain)
        if shadow and i == 0:
            itf, full, spelled = itfs[0], ['A', itfs[0]['name']], [itfs[0]['name']]
        ports.append({'name': nme, 'type': spelled, 'dir': direction, 'inj': direction == 'requires' and rng.random() < 0.15})
    mc_name = ports[0]['name']
    if mc_on and len(ports) > 1 and rng.random() < 0.6:       # the multi-client port need not be declared first
        k = rng.randrange(1, len(ports))
        ports[0], ports[k] = ports[k], ports[0]
    kind = rng.choice(['component', 'component', 'system'])
    decls.append(model.new_decl(kind, cns + ['Comp'], ports=ports))
    prov = [p['name'] for p in ports if p['dir'] == 'provides']
    reqs = [p['name'] for p in ports if p['dir'] == 'requires' and not p['inj']]
    if mc_on or rng.random() < 0.5:
        pcfg = {'sts': shell.NONE, 'mts': rng.choice([shell.ALL, shell.sel('SET', prov) if prov else shell.ALL])}
    else:
        pcfg = {'sts': rng.choice([shell.ALL, shell.sel('SET', prov) if prov else shell.ALL]), 'mts': shell.NONE}
    choice = rng.random()
    if choice < 0.3 or not reqs:
        rcfg = rng.choice([{'sts': shell.ALL, 'mts': shell.NONE}, {'sts': shell.NONE, 'mts': shell.ALL}])
    else:
        some = rng.sample(reqs, rng.randint(1, len(reqs)))
        rcfg = rng.choice([{'sts': shell.sel('SET', some), 'mts': shell.REMAINING},
                           {'sts': shell.REMAINING, 'mts': shell.sel('SET', some)}])
    if clash:
        pcfg, rcfg = {'sts': shell.NONE, 'mts': shell.ALL}, {'sts': shell.NONE, 'mts': shell.ALL}
    mcc = {'on': False, 'port': '', 'claim': '', 'grant': ['x'], 'release': ''}
    if mc_on:
        mcc = {'on': True, 'port': mc_name, 'claim': claim, 'grant': ['Ok'], 'release': release}
    cfg = {'enc': cns + ['Comp'], 'prov': pcfg, 'req': rcfg, 'mc': mcc, 'origin': rng.choice(['create', 'import']),
           'prefix': rng.choice([[], [], ['My'], ['Vendor', 'Lib']]), 'suffix': rng.choice(['Shell', 'AdvShell']), 'base': 'Mod',
           # where the Dezyne file lives is not part of any generated name: the output base name is its stem
           'dir': rng.choice(['', '', './', 'models/sub/', '/abs/path.d/', '../'])}
    return decls, cfg, fields.index('Ok')


# ----------------------------------------------------------------------------------------------
# command scripts
# ----------------------------------------------------------------------------------------------

def cmd_line(cmd):
    c = cmd['c']
    if c == 'construct':
        return 'construct ' + ''.join('1' if b else '0' for b in cmd['bits'])
    if c in ('bind', 'unbind'):
        return f'{c} {cmd["port"]} {cmd["event"]} {cmd["client"] or "-"}'
    if c == 'connect':
        return f'connect {cmd["port"]} {cmd["client"] or "-"}'
    if c == 'unbind-comp':
        return f'unbind-comp {cmd["port"]} {cmd["event"]}'
    if c == 'register':
        return f'register {cmd["id"]}'
    if c == 'script':
        return f'script {cmd["port"]} {cmd["event"]} {cmd["v"]}'
    if c == 'react':
        return f'react {cmd["port"]} {cmd["event"]} {cmd["out"]}'
    if c == 'call':
        return f'call {cmd["who"]} {cmd["port"]} {cmd["client"] or "-"} {cmd["event"]} ' + ' '.join(map(str, cmd['args']))
    if c == 'raise':
        return f'raise {cmd["who"]} {cmd["port"]} - {cmd["event"]} ' + ' '.join(map(str, cmd['args']))
    if c == 'comp':
        return f'comp {cmd["who"]} {cmd["port"]} {cmd["event"]} ' + ' '.join(map(str, cmd['args']))
    return c


def valid_bits(origin, rng):
    other = rng.random() < 0.5
    return [False, False, other] if origin == 'create' else [True, True, other]


def nargs(route_entry):
    return sum(1 for d in route_entry['dirs'] if d in ('in', 'inout'))


def setup_cmds(route, origin, rng, clients):
    cmds = [{'c': 'construct', 'bits': valid_bits(origin, rng)}]
    for cid in clients:
        cmds.append({'c': 'register', 'id': cid})
    if rng.random() < 0.4:
        # the user ties port objects of his own to every boundary port with ConnectPorts and talks through those
        ports = []
        for rte in route:
            if (rte['port'], rte['mc']) not in ports:
                ports.append((rte['port'], rte['mc']))
        for port, is_mc in ports:
            for cid in (clients if is_mc else ['']):
                cmds.append({'c': 'connect', 'port': port, 'client': cid})
    else:
        cmds.append({'c': 'bind', 'port': '*', 'event': '*', 'client': ''})
        for cid in clients:
            cmds.append({'c': 'bind', 'port': '*', 'event': '*', 'client': cid})
    cmds.append({'c': 'final'})
    return cmds


def event_script(route, origin, rng, length, grant, mc_focus=False):
    """A random sequence of events after a complete setup; the queue is drained at the end."""
    has_mc = any(r['mc'] for r in route)
    # registration order is not alphabetical: the selector keeps its clients in an ordered map
    # ... and identifiers are arbitrary strings: look-alikes that differ in a leading zero or in case are different clients
    pool = rng.choice([['A', 'B', 'C'], ['A', 'B', 'C'], ['cam1', 'cam01', 'cam10'], ['7', '07', '007'], ['a', 'A', 'Aa']])
    clients = rng.sample(pool, rng.randint(1, 3)) if has_mc else []
    cmds = setup_cmds(route, origin, rng, clients)
    counter = [0]
    token = [10]
    queued = [0]
    outside = [r for r in route if r['kind'] in ('provides-in', 'requires-out')]
    inside = [r for r in route if r['kind'] in ('provides-out', 'requires-in')]
    if mc_focus:
        outside = [r for r in outside if r['mc']] * 3 + outside
        inside = [r for r in inside if r['mc']] * 3 + inside

    def vals(rte):
        out = []
        for _ in range(nargs(rte)):
            token[0] += 1
            out.append(token[0])
        return out

    reactive = [(r, o) for r in route if r['kind'] == 'provides-in'
                for o in route if o['kind'] == 'provides-out' and o['port'] == r['port']]
    for _ in range(length):
        roll = rng.random()
        if roll < 0.04 and reactive:
            rin, rout = rng.choice(reactive)
            cmds.append({'c': 'react', 'port': rin['port'], 'event': rin['event'], 'out': rout['event']})
            continue
        if roll < 0.12:
            if not route:
                continue
            rte = rng.choice(route)
            if rte['reply'] != 'void':
                val = rng.choice([0, 1, 1, 2]) if rte['reply'] in ('enum', 'int', 'subint') else rng.choice([0, 1])
                if rte['role'] == 'claim':
                    val = rng.choice([grant, grant, 1 - grant if grant < 2 else 0])
                cmds.append({'c': 'script', 'port': rte['port'], 'event': rte['event'], 'v': val})
            continue
        if roll < 0.55 and outside:
            rte = rng.choice(outside)
            counter[0] += 1
            who = f't{counter[0]}'
            if rte['kind'] == 'provides-in':
                cmds.append({'c': 'call', 'who': who, 'port': rte['port'], 'client': rng.choice(clients) if rte['mc'] else '',
                             'event': rte['event'], 'args': vals(rte)})
            else:
                cmds.append({'c': 'raise', 'who': who, 'port': rte['port'], 'event': rte['event'], 'args': vals(rte)})
            if rte['mech'] in ('shell', 'post'):
                queued[0] += 1
            continue
        if roll < 0.8 and queued[0] > 0:
            cmds.append({'c': 'pump'})
            queued[0] -= 1
            continue
        if inside:
            rte = rng.choice(inside)
            cmds.append({'c': 'comp', 'who': 'main', 'port': rte['port'], 'event': rte['event'], 'args': vals(rte)})
    for _ in range(queued[0]):
        cmds.append({'c': 'pump'})
    cmds.append({'c': 'pump'})          # one more: the queue is empty, the model says so too
    return cmds


def facility_script(route, origin, rng):
    """C09: every combination of dispatcher/runtime/other in the user's locator; after a successful construction
    one event through every mechanism."""
    cmds = []
    has_mc = any(r['mc'] for r in route)
    combos = [[bool(n & 4), bool(n & 2), bool(n & 1)] for n in range(8)]
    rng.shuffle(combos)
    for bits in combos:
        cmds.append({'c': 'construct', 'bits': bits})
        good = (not bits[0] and not bits[1]) if origin == 'create' else (bits[0] and bits[1])
        if good:
            tail = event_script(route, origin, rng, 6, 0)[1:]
            # fresh thread names per construction
            tag = ''.join('1' if b else '0' for b in bits)
            for cmd in tail:
                if 'who' in cmd and cmd['who'] != 'main':
                    cmd['who'] = cmd['who'] + 'x' + tag
            cmds.extend(tail)
            cmds.append({'c': 'destroy'})
    return cmds


def binding_script(route, origin, rng):
    """C10: everything bound / exactly one required binding never made / one component handler missing /
    registration after final construction.  The omitted binding is never touched (not bound and unbound again)."""
    has_mc = any(r['mc'] for r in route)
    clients = rng.sample(['B', 'A'], rng.randint(0, 2)) if has_mc else []       # also: no client at all
    cmds = [{'c': 'construct', 'bits': valid_bits(origin, rng)}]
    for cid in clients:
        cmds.append({'c': 'register', 'id': cid})
    user_side = [r for r in route if r['kind'] in ('provides-out', 'requires-in')]
    comp_side = [r for r in route if r['kind'] in ('provides-in', 'requires-out')]
    keys = [(r['port'], r['event'], c) for r in user_side for c in (clients if r['mc'] else [''])]
    mode = rng.choice(['all', 'one-missing', 'one-missing', 'one-missing', 'comp-missing'])
    missing = rng.choice(keys) if (mode == 'one-missing' and keys) else None
    order = list(keys)
    rng.shuffle(order)
    for key in order:
        if key != missing:
            cmds.append({'c': 'bind', 'port': key[0], 'event': key[1], 'client': key[2]})
    if missing is not None:
        cmds.append({'c': 'final'})
        cmds.append({'c': 'bind', 'port': missing[0], 'event': missing[1], 'client': missing[2]})
        cmds.append({'c': 'final'})
    elif mode == 'comp-missing' and comp_side:
        rte = rng.choice(comp_side)
        cmds.append({'c': 'unbind-comp', 'port': rte['port'], 'event': rte['event']})
        cmds.append({'c': 'final'})
    else:
        # (what a SECOND call after a successful final construction does - nothing, or an error - is not part of the
        # property and is not exercised)
        cmds.append({'c': 'final'})
    cmds.append({'c': 'register', 'id': 'Z'})
    cmds.append({'c': 'bind', 'port': '*', 'event': '*', 'client': 'Y'})
    return cmds


# ----------------------------------------------------------------------------------------------
# running and normalising
# ----------------------------------------------------------------------------------------------

FACT_KEYS = ('ok', 'comp_locator_is_user', 'comp_pump_is_user', 'comp_runtime_is_user', 'comp_has_pump', 'comp_has_runtime',
             'comp_has_other', 'comp_services', 'user_locator_unchanged', 'has_locator_accessor',
             'locator_accessor_is_comp_locator')


def normalise(cmd, reply):
    res = dict(reply.get('res') or {})
    res.pop('what', None)
    res.pop('instance_name', None)
    if cmd['c'] == 'construct' and res.get('ok'):
        res = {k: res[k] for k in FACT_KEYS}
    done = []
    for who, val in sorted((reply.get('done') or {}).items()):
        if val.get('ok'):
            done.append({'who': who, 'ok': True, 'reply': val['reply'], 'outs': val['outs'], 'type': ''})
        else:
            done.append({'who': who, 'ok': False, 'reply': 0, 'outs': [], 'type': val.get('type', '?')})
    return {'res': res, 'queue': reply.get('queue'), 'blocked': sorted(reply.get('blocked', [])),
            'log': reply.get('log', []), 'done': done}


def run_script(prog, cmds):
    replies = prog.run([cmd_line(c) for c in cmds])
    events, problem = [], None
    for i, cmd in enumerate(cmds):
        if i >= len(replies) or replies[i].get('cmd') in ('CRASH', 'TIMEOUT', 'UNPARSABLE', 'quit', 'STUCK'):
            problem = replies[min(i, len(replies) - 1)]
            break
        if not replies[i].get('quiet', True):
            problem = {'cmd': 'NOT-QUIET', 'at': cmd_line(cmd)}
        events.append({'cmd': cmd, 'obs': normalise(cmd, replies[i])})
    if problem is None and replies and replies[-1].get('cmd') == 'CRASH':
        problem = replies[-1]
    return events, problem


def classify(evt, expected):
    """Which property does a disagreement at this event belong to?"""
    c = evt['cmd']['c']
    if c == 'construct':
        return 'C09'
    if c == 'destroy':
        return 'C09'
    if c in ('final', 'bind', 'unbind', 'register', 'unbind-comp', 'connect'):
        return 'C10'
    obs = evt['obs']
    if not isinstance(expected, dict):
        return 'C01'
    exp_log, got_log = expected.get('log', []), obs.get('log', [])

    def strip(entries, keys):
        return [{k: e.get(k) for k in keys} for e in entries]
    route_keys = ('side', 'port', 'event', 'args', 'outs', 'reply')
    if strip(exp_log, ('side', 'port', 'event')) == strip(got_log, ('side', 'port', 'event')) and \
            strip(exp_log, ('client',)) != strip(got_log, ('client',)):
        return 'C04'
    if len(exp_log) != len(got_log) and any(e.get('client') for e in exp_log + got_log):
        return 'C04'
    if strip(exp_log, route_keys) == strip(got_log, route_keys) and \
            sorted(json.dumps(d, sort_keys=True) for d in expected.get('done', [])) == \
            sorted(json.dumps(d, sort_keys=True) for d in obs.get('done', [])) and \
            (expected.get('res') == obs.get('res')):
        return 'C02'          # same deliveries and results: context, queueing or blocking differs
    if expected.get('queue') != obs.get('queue') and strip(exp_log, route_keys) != strip(got_log, route_keys):
        return 'C02' if len(exp_log) != len(got_log) else 'C01'
    return 'C01'


class Engine:
    """Builds, compiles and drives programs; validates the recorded executions with TLC."""

    def __init__(self, chk, pid, known_h):
        self.chk, self.pid, self.known_h = chk, pid, known_h
        # the sealing of the selector by a failed final construction is C10's business only; elsewhere the shipped rule
        self.known_r = known_r()
        self.other = {}

    def programs(self, rng, count, want_mc=None):
        progs = []
        tries = 0
        while len(progs) < count and tries < count * 4:
            tries += 1
            decls, cfg, grant = gen_model(rng, want_mc, clash=(tries % 4 == 0),
                                          mc_names=MC_ROTATION[tries % len(MC_ROTATION)] if tries % 2 else None,
                                          shadow=(tries % 6 == 3))
            prog = cxx.Program(decls, cfg)
            prog.grant = grant
            try:
                if prog.generate():
                    progs.append(prog)
                else:
                    kind = type(prog.build_exc).__name__
                    self.chk.notes.append(f'generated model did not build: {kind}: {prog.build_exc}')
                    # the generator only ever produces one kind of unbuildable model: a name that is ambiguous on a scope
                    # chain (FindError).  Any other refusal is the library refusing a well-formed model with a valid
                    # configuration (e.g. claim/release events that are declared but called something unusual).
                    from dznpy.ast_view import FindError  # pylint: disable=import-outside-toplevel
                    ambiguous = isinstance(prog.build_exc, FindError) or 'more than one instance' in str(prog.build_exc)
                    if not ambiguous and self.pid in ('C01', 'C04'):
                        self.chk.violation(f'a well-formed model with a valid configuration is refused: {kind}: {str(prog.build_exc)[:200]}',
                                           {'decls': decls, 'cfg': cfg}, {'kind': 'valid-model-refused'})
            except AssertionError:
                continue
        oks = cxx.compile_many(progs)
        good = []
        for prog, okay in zip(progs, oks):
            if okay:
                good.append(prog)
            else:
                self.compile_failure(prog)
        self.chk.programs += len(good)
        if progs and not good:
            self.chk.violation('none of the generated shells compiles: the property cannot hold for any program',
                               {'first_error': (progs[0].error or '')[:2000], 'cfg': progs[0].cfg, 'decls': progs[0].decls})
        return good

    def compile_failure(self, prog):
        err = prog.error or ''
        first = next((ln for ln in err.splitlines() if 'error' in ln), err[:200])
        sig = {'kind': 'compile-error'}
        self.compile_failures = getattr(self, 'compile_failures', 0) + 1
        if self.pid in ('C01', 'C06'):
            # the wiring code is what does not compile: no event of this shell is forwarded at all
            self.chk.violation(f'generated shell does not compile against the mock runtime: {first[:300]}',
                               {'decls': prog.decls, 'cfg': prog.cfg, 'compiler_output': err[:3000]}, sig)
        else:
            self.chk.notes.append(f'program skipped, does not compile (reported by C01/C06): {first[:160]}')

    def execute(self, jobs):
        """jobs: list of (prog, cmds, label); returns traces (one per job)."""
        from concurrent.futures import ThreadPoolExecutor  # pylint: disable=import-outside-toplevel
        traces = []

        def one(job):
            prog, cmds, label = job
            events, problem = run_script(prog, cmds)
            return prog, cmds, label, events, problem
        with ThreadPoolExecutor(max_workers=min(core.NCPU, 12)) as pool:
            for n, (prog, cmds, label, events, problem) in enumerate(pool.map(one, jobs)):
                info = prog.info
                cx = {'route': info.route(), 'origin': info.origin, 'grant': prog.grant, 'knownH': self.known_h,
                      'knownR': self.known_r}
                if problem is not None:
                    self.chk.violation(f'driver run failed ({label}): {json.dumps(problem)[:400]}',
                                       {'decls': prog.decls, 'cfg': prog.cfg, 'commands': [cmd_line(c) for c in cmds],
                                        'problem': problem}, {'kind': 'driver-failure'})
                    continue
                traces.append({'id': f'{label}-{n}', 'cx': cx, 'events': events, 'prog': prog})
                self.chk.count((label, n))
        return traces

    def validate(self, traces):
        """Two passes.  (1) against the rule the properties state (no known finding assumed); (2) the traces that pass 1
        rejects, against the shipped rule of the LISTED known findings (H: Deselect ignores its argument, R: a failed final
        construction seals the selector).  A trace only the shipped rule explains is an occurrence of that finding; a tree
        on which the finding is repaired passes in pass 1 and prints nothing."""
        by_id = {t['id']: t for t in traces}

        def slim(trs, **flags):
            return [{'id': t['id'], 'cx': dict(t['cx'], **flags), 'events': t['events'], 'decls': t['prog'].decls,
                     'cfg': t['prog'].cfg} for t in trs]
        listed = {'knownH': bool(self.known_h), 'knownR': bool(self.known_r)}
        rejected = core.validate_traces(self.chk, 'ShellRuntimeTrace', 'ShellRuntimeTrace.cfg',
                                        slim(traces, knownH=False, knownR=False), batch=300)
        occurrences = []
        if rejected and any(listed.values()):
            counted = self.chk.traces
            again = [by_id[t['id']] for t, _ in rejected]
            rejected2 = core.validate_traces(self.chk, 'ShellRuntimeTrace', 'ShellRuntimeTrace.cfg', slim(again, **listed), batch=300)
            self.chk.traces = counted + len(again) - len(rejected2)
            still = {t['id'] for t, _ in rejected2}
            occurrences = [(by_id[t['id']], pos) for t, pos in rejected if t['id'] not in still]
            rejected = rejected2
        for line in getattr(self.chk, 'printed', []):
            if line.startswith('<<"ROUTE-DIFFERS"'):
                raise core.MachineryError('the routing table computed by the harness differs from ShellStructure.tla RouteOf: ' + line)
        self.chk.extra['traces_only_the_shipped_rule_explains'] = self.chk.extra.get('traces_only_the_shipped_rule_explains', 0) + len(occurrences)
        for full, pos in occurrences:
            evt = full['events'][pos - 1]
            is_r = evt['cmd']['c'] in ('final', 'register')
            owner = 'C10' if is_r else 'C04'
            what = (f'{cmd_line(evt["cmd"])}: observed {json.dumps(evt["obs"])[:200]}: explained only by the shipped rule of known '
                    f'finding {"R (a failed final construction seals the selector)" if is_r else "H (Deselect ignores its argument)"}')
            if self.pid == 'C10' and is_r:
                self.chk.violation(what, {'decls': full['prog'].decls, 'cfg': full['prog'].cfg,
                                          'commands': [cmd_line(e['cmd']) for e in full['events'][:pos]], 'observed': evt['obs']},
                                   {'kind': 'final-retry-after-sealed-failure'})
            elif self.pid == 'C04' and not is_r:
                pass            # reported with the exact delivery by finish_c04 (STRICT-C04 lines of pass 2)
            else:
                self.other.setdefault(owner, []).append(what[:200])
        for num, (trace, pos) in enumerate(rejected[:12]):
            full = by_id[trace['id']]
            exp = core.explain_trace('ShellRuntimeTrace', 'ShellRuntimeTrace.cfg', trace, pos) if num < 4 else None
            evt = trace['events'][pos - 1]
            prop = classify(evt, exp) if exp is not None else self.pid
            clause = core.failing_clause(exp, evt['obs']) if isinstance(exp, dict) else '?'
            what = (f'{cmd_line(evt["cmd"])}: observed {json.dumps(evt["obs"])[:300]} but ShellRuntime.tla prescribes '
                    f'{json.dumps(exp)[:300]} (differs in {clause})')
            if prop == self.pid:
                self.chk.violation(what, {'decls': full['prog'].decls, 'cfg': full['prog'].cfg, 'cx': trace['cx'],
                                          'commands': [cmd_line(e['cmd']) for e in trace['events'][:pos]],
                                          'observed': evt['obs'], 'model': exp, 'spec': 'ShellRuntimeTrace.tla'})
            else:
                self.other.setdefault(prop, []).append(what[:200])
        if self.other:
            self.chk.notes.append('disagreements attributed to other properties (reported by their own checks): ' +
                                  json.dumps({k: len(v) for k, v in self.other.items()}))
        return rejected


def known_r():
    return any(f.get('id') == 'R' for f in core.load_known_findings().get('findings', []))


def strict_final_pass(chk, eng, traces):
    """Known finding R is listed: the traces were validated against the shipped rule.  Validate them again against the rule
    the property states (a failed final construction changes nothing): the traces only the shipped rule explains are the
    occurrences of R; anything else the strict rule rejects was rejected before as well."""
    slim = [{'id': t['id'], 'cx': dict(t['cx'], knownR=False), 'events': t['events'], 'decls': t['prog'].decls,
             'cfg': t['prog'].cfg} for t in traces]
    by_id = {t['id']: t for t in traces}
    quiet = core.Check.__new__(core.Check)
    quiet.__dict__.update(states=0, transitions=0, traces=0, tlc_runs=[], printed=[])
    rejected = core.validate_traces(quiet, 'ShellRuntimeTrace', 'ShellRuntimeTrace.cfg', slim, batch=300)
    chk.states += quiet.states
    chk.transitions += quiet.transitions
    for trace, pos in rejected:
        evt = trace['events'][pos - 1]
        full = by_id[trace['id']]
        earlier = [e for e in trace['events'][:pos - 1] if e['cmd']['c'] == 'final']
        is_r = evt['cmd']['c'] in ('final', 'register') and earlier and not earlier[-1]['obs'].get('res', {}).get('ok', False)
        chk.violation(f'{cmd_line(evt["cmd"])} after a failed final construction: observed {json.dumps(evt["obs"])[:200]} '
                      '(a failed attempt must change nothing: the retry succeeds once everything is bound)',
                      {'decls': full['prog'].decls, 'cfg': full['prog'].cfg,
                       'commands': [cmd_line(e['cmd']) for e in trace['events'][:pos]], 'observed': evt['obs']},
                      {'kind': 'final-retry-after-sealed-failure'} if is_r else {'kind': 'strict-final-other'})


def known_h(chk):
    return any(f.get('id') == 'H' for f in core.load_known_findings().get('findings', []))


def generic_check(pid, tier, seed, script_kind, rule, nprogs, nscripts, length, want_mc=None, assumptions=()):
    chk = core.Check(pid, tier, seed)
    core.repo_guard()
    chk.rule = rule
    eng = Engine(chk, pid, known_h(chk))
    rng = random.Random(seed * 1000 + int(pid[1:]))
    progs = eng.programs(rng, nprogs, want_mc)
    jobs = []
    for prog in progs:
        route, origin = prog.info.route(), prog.info.origin
        for k in range(nscripts):
            if script_kind == 'events':
                cmds = event_script(route, origin, rng, length, prog.grant, mc_focus=(pid == 'C04'))
            elif script_kind == 'facilities':
                cmds = facility_script(route, origin, rng)
            else:
                cmds = binding_script(route, origin, rng)
            jobs.append((prog, cmds, script_kind))
    traces = eng.execute(jobs)
    if pid in ('C01', 'C02', 'C10'):
        wiring_net(chk, eng, tier, seed, 400 if tier == 'quick' else 5000)
    if traces:
        chk.sample({'cfg': traces[0]['prog'].cfg, 'route': traces[0]['cx']['route'][:3],
                    'commands': [cmd_line(e['cmd']) for e in traces[0]['events']][:14],
                    'last_observation': traces[0]['events'][-1]['obs']})
    eng.validate(traces)
    chk.trusted = ['mock Dezyne 2.17 runtime under /verif/cxx/mock (dzn::locator, runtime, pump, shell, meta, port::meta, '
                   'binding_error)', 'mock of the Dezyne-generated model header (harness/cxxgen.py)', 'g++ 12 -std=c++17']
    chk.assumptions = list(assumptions) + [
        'generated headers are compiled from copies with "#pragma once" prepended and the shell source is included into the '
        'driver translation unit (work-arounds for known findings F and G of C06, which checks those itself)',
        'models are well-formed Dezyne (extern parameter types, void out-events, unique port names); identifiers from a plain pool']
    return chk, traces


def sanitizer_after(chk, traces, tier, seed):
    progs, seen = [], set()
    for trc in traces:
        if id(trc['prog']) not in seen:
            seen.add(id(trc['prog']))
            progs.append(trc['prog'])
    # programs with a rerouted (MTS) port first: that is where closures outlive the caller's frame
    progs.sort(key=lambda p: -sum(1 for r in p.info.route() if r.get('sem') == 'MTS'))
    sanitizer_pass(chk, progs, random.Random(seed * 77 + 1), 8 if tier == 'quick' else 48, 3 if tier == 'quick' else 6,
                   40 if tier == 'quick' else 80)
    chk.trusted = list(getattr(chk, 'trusted', [])) + ['AddressSanitizer/UBSan of g++ 12 (leak detection off: the mock runtime leaks by design)']


SAN_FLAGS = ['-fsanitize=address,undefined', '-fno-omit-frame-pointer', '-g']


def sanitizer_pass(chk, progs, rng, nprogs, nscripts, length):
    """The same generated shells, compiled with AddressSanitizer + UBSan, driven by fresh event scripts: a lifetime error
    in the forwarding code (an argument captured by reference that is gone when the dispatcher runs the closure, a
    dangling port reference) is reported by the sanitizer at the forwarding step itself, whether or not the stale memory
    still happens to hold the right value."""
    from concurrent.futures import ThreadPoolExecutor  # pylint: disable=import-outside-toplevel
    twins = []
    for prog in progs[:nprogs]:
        twin = cxx.Program(prog.decls, prog.cfg, flags=SAN_FLAGS)
        twin.files, twin.grant = prog.files, prog.grant
        twins.append(twin)
    oks = cxx.compile_many(twins)
    jobs = []
    for twin, okay in zip(twins, oks):
        if not okay:
            chk.notes.append('sanitizer twin does not compile: ' + (twin.error or '')[:160])
            continue
        for _ in range(nscripts):
            jobs.append((twin, event_script(twin.info.route(), twin.info.origin, rng, length, twin.grant)))

    def one(job):
        twin, cmds = job
        return twin, cmds, twin.run([cmd_line(c) for c in cmds], env={'ASAN_OPTIONS': 'detect_leaks=0', 'UBSAN_OPTIONS': 'print_stacktrace=1:halt_on_error=1'})
    reports = 0
    with ThreadPoolExecutor(max_workers=min(core.NCPU, 12)) as pool:
        for num, (twin, cmds, replies) in enumerate(pool.map(one, jobs)):
            chk.count(('sanitizer', num))
            last = replies[-1] if replies else {}
            err = last.get('stderr') or ''
            if last.get('cmd') == 'CRASH' and ('Sanitizer' in err or 'runtime error:' in err):
                reports += 1
                if reports > 6:
                    continue
                first = next((ln for ln in err.splitlines() if 'ERROR: ' in ln or 'runtime error:' in ln), err[:200])
                where = next((ln.strip() for ln in err.splitlines() if 'AdvShell' in ln or 'Shell.cc' in ln or 'Shell.hh' in ln), '')
                chk.violation(f'memory/undefined-behaviour error in the compiled shell while events are forwarded: {first[:200]} {where[:160]}',
                              {'decls': twin.decls, 'cfg': twin.cfg, 'commands': [cmd_line(c) for c in cmds],
                               'sanitizer_output': err[:3000]}, {'kind': 'sanitizer-report'})
    chk.sanitizer_runs = getattr(chk, 'sanitizer_runs', 0) + len(jobs)


def check_c01(tier, seed):
    rule = ('random well-formed models (1-4 ports over 1-3 interfaces, 6 in-event and 3 out-event shapes with in/out/inout '
            'parameters of two distinct C++ types, ports sharing an interface, component in global/nested namespaces, '
            'system or component, multi-client on/off, release events with arbitrary names) are built, compiled against the '
            'mock runtime and driven by random event scripts (client calls, peer raises, component out/in events, dispatcher '
            'steps); every observation (which handler received which event with which argument values in which context, '
            'replies and out-argument values handed back) must be the one ShellRuntime.tla prescribes for the routing table. '
            'distinct = (program, script) executions.')
    chk, traces = generic_check('C01', tier, seed, 'events', rule, 24 if tier == 'quick' else 160, 6 if tier == 'quick' else 10,
                                40 if tier == 'quick' else 80)
    sanitizer_after(chk, traces, tier, seed)
    mc_replay(chk, tier, None)
    return chk.finish()


STRICT_TU = r'''
#include <functional>
#include <type_traits>
#include <utility>
struct I { struct { std::function<void()> e; } in; struct { std::function<void()> o; } out; };
struct J { struct { std::function<void()> e; } in; struct { std::function<void()> o; } out; };
inline void connect(I& provided, I& required) { provided.out = required.out; required.in = provided.in; }
inline void connect(J& provided, J& required) { provided.out = required.out; required.in = provided.in; }
#include "HDR1"
#include "HDR2"
#define DETECT(NAME, CALL) \
  template <typename A, typename B, typename = void> struct NAME : std::false_type {}; \
  template <typename A, typename B> struct NAME<A, B, decltype(void(CALL(std::declval<A>(), std::declval<B>())))> : std::true_type {};
DETECT(viaN1, NS1::ConnectPorts)
DETECT(viaN2, NS2::ConnectPorts)
DETECT(adl, ConnectPorts)
ASSERTS
int main()
{
  // the effect of the tie: the requirer's in-events run the provider's handlers, the provider's out-events the requirer's
  I prov, req; int hits = 0;
  prov.in.e = [&] { hits += 1; }; req.out.o = [&] { hits += 10; };
  NS1::ConnectPorts(NS1::Sts<I>{prov}, NS1::Sts<I>{req});
  req.in.e(); prov.out.o();
  return hits == 11 ? 0 : 1;
}
'''


def strict_typing_check(chk):
    """C02 at compile time: <prefix>_StrictPort.hh generated for two prefixes; TLC enumerates (StrictPortCases.tla) every
    way to call ConnectPorts on every pair of Sts<>/Mts<> values of both copies with the verdict of StrictPort.tla
    (must / never / either); each becomes a static_assert on a SFINAE detector, and the effect of the tie is run."""
    core.repo_guard()
    from dznpy.support_files import strict_port  # pylint: disable=import-outside-toplevel
    from dznpy.scoping import ns_ids_t  # pylint: disable=import-outside-toplevel
    import subprocess  # pylint: disable=import-outside-toplevel
    work = core.subdir('strict')
    gens = [strict_port.create_header(None), strict_port.create_header(ns_ids_t(['Other', 'Project']))]
    for gen in gens:
        with open(os.path.join(work, gen.filename), 'w', encoding='utf-8') as fil:
            fil.write(gen.contents)
    nss = {'N1': '::' + '::'.join(gens[0].namespace.items), 'N2': '::' + '::'.join(gens[1].namespace.items)}
    cases = chk.tlc('StrictPortCases', 'StrictPortCases.cfg', workers=2).emitted()
    if not cases:
        raise core.MachineryError('StrictPortCases emitted no cases')

    def typ(prt):
        return f'{nss[prt["ns"]]}::{"Sts" if prt["sem"] == "STS" else "Mts"}<{prt["itf"]}>'
    asserts = []
    for case in cases:
        chk.count(('strict-typing', json.dumps(case, sort_keys=True)))
        ta, tb = typ(case['a']), typ(case['b'])
        ways = [f'via{case["via"]}<{ta}, {tb}>::value']
        if case['a']['ns'] == case['via']:            # an unqualified call finds that copy through its argument
            ways.append(f'adl<{ta}, {tb}>::value')
        if case['verdict'] == 'never':
            asserts.append(f'static_assert(!({" || ".join(ways)}) && !adl<{ta}, {tb}>::value, "never: {case["via"]}::ConnectPorts({ta}, {tb})");')
        elif case['verdict'] == 'must':
            asserts.append(f'static_assert({ways[0]}, "must: {case["via"]}::ConnectPorts({ta}, {tb})");')
    text = STRICT_TU.replace('HDR1', gens[0].filename).replace('HDR2', gens[1].filename).replace('ASSERTS', '\n'.join(asserts)) \
        .replace('NS1', nss['N1']).replace('NS2', nss['N2'])
    path = os.path.join(work, 'strict.cc')
    with open(path, 'w', encoding='utf-8') as fil:
        fil.write(text)
    proc = subprocess.run(['g++', '-std=c++17', '-I', work, path, '-o', os.path.join(work, 'strict')], capture_output=True, text=True, check=False)
    chk.programs += 1
    if proc.returncode != 0:
        first = next((ln for ln in proc.stderr.splitlines() if 'error' in ln), proc.stderr[:200])
        chk.violation(f'strict port typing: {first[:300]}', {'translation_unit': text[-4000:], 'compiler_output': proc.stderr[:3000]},
                      {'kind': 'strict-typing'})
        return
    try:
        run = subprocess.run([os.path.join(work, 'strict')], capture_output=True, text=True, timeout=300, check=False)
        failed = run.returncode != 0
    except subprocess.TimeoutExpired:
        failed = True
    if failed:
        chk.violation('ConnectPorts does not tie the two ports as Dezyne\'s connect() does (StrictPort.tla ConnectLaw)',
                      {'translation_unit': text[-1500:]}, {'kind': 'strict-typing'})


def check_c02(tier, seed):
    rule = ('as C01, judged on execution context and queueing: MTS provides in-events queue a closure and block the caller '
            'until the dispatcher step that runs it (ctx = dispatcher thread), MTS requires out-events queue a copy and return '
            'at once, STS events run on the caller\'s thread and never touch the queue; accessor types (Sts<I>/Mts<I>) are '
            'static_asserts generated from the routing table, identity of the accessor port with the component\'s own port '
            'is probed. 40% of the scripts tie port objects of their own to the boundary ports with ConnectPorts and talk through those; StrictPort.tla decides every ConnectPorts call over Sts/Mts values of two copies of the support file (static_asserts on SFINAE detectors); AddressSanitizer/UBSan twins.')
    chk, traces = generic_check('C02', tier, seed, 'events', rule, 24 if tier == 'quick' else 160, 6 if tier == 'quick' else 10,
                                40 if tier == 'quick' else 80)
    sanitizer_after(chk, traces, tier, seed)
    strict_typing_check(chk)
    mc_replay(chk, tier, ['plain'])
    return chk.finish()


def check_c09(tier, seed):
    rule = ('for every compiled program all 8 combinations of dispatcher/runtime/other service in the user\'s locator are '
            'constructed (both origins over the program set); the driver reports exception type, identity of the locator, '
            'pump and runtime the mock component received, the number of services, whether the user\'s locator changed, '
            'presence of Locator() (SFINAE) and its identity; after a successful construction events are pushed through '
            'every mechanism so that MTS events must go through that very dispatcher. After a good construction the shell is destroyed: the user\'s dispatcher must still be running.')
    chk, _ = generic_check('C09', tier, seed, 'facilities', rule, 24 if tier == 'quick' else 160, 1 if tier == 'quick' else 2, 0)
    return chk.finish()


def check_c10(tier, seed):
    rule = ('for every compiled program: everything bound, exactly one required user-side binding missing (any exposed port, '
            'direction, registered client), one handler of the wrapped component missing, then final construction; '
            'afterwards the missing binding is supplied and final construction repeated; registration of a new client after '
            'final construction must fail. ShellRuntime.tla prescribes Ok/binding_error/runtime_error and the parent meta. 0-2 clients in random registration order; traces are validated against the rule the property states first, the ones only the shipped rule of known finding R explains are its occurrences.')
    chk, traces = generic_check('C10', tier, seed, 'bindings', rule, 24 if tier == 'quick' else 160, 8 if tier == 'quick' else 16, 0)
    return chk.finish()


# ----------------------------------------------------------------------------------------------
# C04
# ----------------------------------------------------------------------------------------------

def strict_selection(trace, upto):
    """Selection under the identity-checked Deselect rule, and the ghost holder, after `upto` events."""
    route = {(r['port'], r['event']): r for r in trace['cx']['route']}
    grant = trace['cx']['grant']
    script, sel, holder, queue = {}, '', '', []
    for evt in trace['events'][:upto]:
        cmd = evt['cmd']
        if cmd['c'] == 'construct':
            script, sel, holder, queue = {}, '', '', []
        elif cmd['c'] == 'script':
            script[(cmd['port'], cmd['event'])] = cmd['v']
        elif cmd['c'] == 'call' and route[(cmd['port'], cmd['event'])]['mech'] == 'shell':
            queue.append(cmd)
        elif cmd['c'] == 'raise' and route[(cmd['port'], cmd['event'])]['mech'] == 'post':
            queue.append(cmd)
        elif cmd['c'] == 'pump' and queue:
            head = queue.pop(0)
            rte = route[(head['port'], head['event'])]
            if head['c'] == 'call' and rte['mc']:
                if rte['role'] == 'claim' and script.get((head['port'], head['event']), 0) == grant:
                    sel = holder = head['client']
                elif rte['role'] == 'release':
                    if sel == head['client']:
                        sel = ''
                    if holder == head['client']:
                        holder = ''
    return sel, holder


def check_c04(tier, seed):
    from . import build_checks  # pylint: disable=import-outside-toplevel
    from .parser_checks import replay_parallel  # pylint: disable=import-outside-toplevel
    rule = ('multi-client programs (claim/release events with arbitrary names, 0-2 claim formals incl. out, 0-1 release '
            'formal, granting value first or last in the enum, enum global/namespaced/nested in the interface, 1-3 registered '
            'clients) driven by random histories of claims with scripted replies, releases, other in-events and component '
            'out-events; ShellRuntimeTrace.tla validates every delivery (receiver = selected client, reply back to the '
            'calling client, in-events through the dispatcher) and evaluates the strict reading (receiver = holder) on every '
            'real execution; invalid multi-client settings are the 7 TLC fault cases of ShellCases.tla.')
    chk, traces = generic_check('C04', tier, seed, 'events', rule, 16 if tier == 'quick' else 120, 10 if tier == 'quick' else 16,
                                50 if tier == 'quick' else 90, want_mc=True)
    by_id = {t['id']: t for t in traces}
    hits = []
    for line in getattr(chk, 'printed', []):
        mat = re.match(r'<<"STRICT-C04", "([^"]*)", (\d+), "([^"]*)", "([^"]*)">>', line)
        if mat:
            hits.append((mat.group(1), int(mat.group(2)), mat.group(3), mat.group(4)))
    chk.extra['strict_c04_divergences'] = len(hits)
    finish_c04(chk, hits[:40], by_id)
    # invalid multi-client settings must be refused with a configuration error (TLC fault cases)
    res = chk.tlc('ShellCases', 'ShellCases_faults.cfg')
    cases = [c for c in res.emitted() if c['fault'].startswith('mc-')]
    replay_parallel(chk, cases, build_checks.replay_c13_case, 'invalid multi-client settings',
                    lambda c: json.dumps([c['base'], c['fault']], sort_keys=True))
    mc_replay(chk, tier, ['multiclient'])
    return chk.finish()


def finish_c04(chk, strict_hits, traces_by_id):
    unexplained = 0
    for tid, pos, sel, holder in strict_hits:
        trace = traces_by_id.get(tid)
        if trace is None:
            continue
        ssel, sholder = strict_selection(trace, pos - 1)
        evt = trace['events'][pos - 1]
        replay = {'cfg': trace['prog'].cfg, 'decls': trace['prog'].decls,
                  'commands': [cmd_line(e['cmd']) for e in trace['events'][:pos]],
                  'delivered_to': sel, 'holder': holder, 'observed': evt['obs']}
        if ssel == sholder:
            chk.violation(f'out-event {cmd_line(evt["cmd"])} delivered to "{sel}" but the claim holder is "{holder}"',
                          replay, {'kind': 'deselect-by-non-holder'})
        else:
            unexplained += 1
            chk.violation(f'out-event {cmd_line(evt["cmd"])} delivered to "{sel}" but the claim holder is "{holder}" '
                          '(not explained by the known Deselect defect)', replay, {'kind': 'selection-differs-from-holder'})
    return unexplained


# ----------------------------------------------------------------------------------------------
# spec -> code: TLC behaviours of ShellRuntimeMC.tla replayed on the compiled shell
# ----------------------------------------------------------------------------------------------

def fixed_models():
    """Two small fixed programs whose complete bounded state space TLC explores."""
    t_in = lambda n, *f: {'name': n, 'dir': 'in', 'reply': ['void'], 'formals': list(f)}   # noqa: E731
    i0 = [{'name': 'Go', 'dir': 'in', 'reply': ['bool'], 'formals': [F('a', 'T'), F('b', 'U', 'out')]},
          {'name': 'Done', 'dir': 'out', 'reply': ['void'], 'formals': [F('a', 'T')]}]
    i1 = [t_in('Get', F('x', 'T', 'inout')), {'name': 'Note', 'dir': 'out', 'reply': ['void'], 'formals': [F('a', 'U')]}]
    plain = [model.new_decl('extern', ['T'], cpp=T1), model.new_decl('extern', ['A', 'U'], cpp=T2),
             model.new_decl('interface', ['A', 'I0'], events=i0), model.new_decl('interface', ['A', 'I1'], events=i1),
             model.new_decl('component', ['A', 'Comp'], ports=[
                 {'name': 'p', 'type': ['I0'], 'dir': 'provides', 'inj': False},
                 {'name': 'r', 'type': ['I1'], 'dir': 'requires', 'inj': False},
                 {'name': 's', 'type': ['A', 'I1'], 'dir': 'requires', 'inj': False}])]
    cfg_plain = {'enc': ['A', 'Comp'], 'prov': {'sts': shell.NONE, 'mts': shell.ALL},
                 'req': {'sts': shell.sel('SET', ['s']), 'mts': shell.REMAINING},
                 'mc': {'on': False, 'port': '', 'claim': '', 'grant': ['x'], 'release': ''},
                 'origin': 'create', 'prefix': [], 'suffix': 'Shell', 'base': 'Mod'}
    mci = [{'name': 'Acquire', 'dir': 'in', 'reply': ['Res'], 'formals': [F('a', 'T')]},
           t_in('Free'), t_in('Use', F('x', 'T', 'inout')),
           {'name': 'Done', 'dir': 'out', 'reply': ['void'], 'formals': [F('a', 'T')]}]
    mcm = [model.new_decl('extern', ['T'], cpp=T1), model.new_decl('enum', ['Res'], fields=['No', 'Ok']),
           model.new_decl('interface', ['I0'], events=mci),
           model.new_decl('component', ['My', 'Comp'], ports=[{'name': 'api', 'type': ['I0'], 'dir': 'provides', 'inj': False}])]
    cfg_mc = {'enc': ['My', 'Comp'], 'prov': {'sts': shell.NONE, 'mts': shell.ALL}, 'req': {'sts': shell.ALL, 'mts': shell.NONE},
              'mc': {'on': True, 'port': 'api', 'claim': 'Acquire', 'grant': ['Ok'], 'release': 'Free'},
              'origin': 'import', 'prefix': ['My'], 'suffix': 'Shell', 'base': 'Mod'}
    return [('plain', plain, cfg_plain, 0), ('multiclient', mcm, cfg_mc, 1)]


def replay_history(job):
    bad, _ = replay_history_events(job)
    return bad


def replay_history_events(job):
    prog, setup, hist = job
    cmds = setup + [h['cmd'] for h in hist]
    events, problem = run_script(prog, cmds)
    if problem is not None:
        return [('driver run', 'completes', json.dumps(problem)[:300])], None
    for k, step in enumerate(hist):
        got = events[len(setup) + k]['obs']
        exp = dict(step['obs'])
        exp['blocked'] = sorted(exp['blocked'])
        exp['done'] = sorted(exp['done'], key=lambda d: d['who'])
        got = dict(got, done=sorted(got['done'], key=lambda d: d['who']))
        if exp != got:
            fields = [f for f in exp if exp[f] != got.get(f)]
            return [(f'step {k + 1} ({cmd_line(step["cmd"])}) differs in {fields}', exp, got)], events
    return [], events


def mc_replay(chk, tier, which, strict=False):
    """TLC explores ShellRuntimeMC for the fixed programs; every maximal history is replayed on the compiled shell."""
    import os  # pylint: disable=import-outside-toplevel
    from concurrent.futures import ThreadPoolExecutor  # pylint: disable=import-outside-toplevel
    for name, decls, cfg, grant in fixed_models():
        if which and name not in which:
            continue
        prog = cxx.Program(decls, cfg)
        prog.grant = grant
        if not prog.compile():
            chk.violation(f'fixed program {name} does not build/compile: {prog.error[:300]}', {'decls': decls, 'cfg': cfg},
                          {'kind': 'compile-error'})
            continue
        chk.programs += 1
        cx = {'route': prog.info.route(), 'origin': prog.info.origin, 'grant': grant, 'knownH': known_h(chk), 'knownR': True}
        path = os.path.join(core.subdir('mc'), f'cx-{name}.json')
        with open(path, 'w', encoding='utf-8') as fil:
            json.dump(cx, fil)
        res = chk.tlc('ShellRuntimeMC', 'ShellRuntimeMC.cfg' if tier == 'quick' else 'ShellRuntimeMC4.cfg',
                      env={'CX_FILE': path}, timeout=3000)
        hists = res.emitted()
        if not hists:
            raise core.MachineryError('ShellRuntimeMC emitted no histories')
        chk.sample({'program': name, 'history': [cmd_line(h['cmd']) for h in hists[len(hists) // 2]['hist']]})
        jobs = [(prog, h['setup'], h['hist']) for h in hists]
        nbad = 0
        eng = Engine(chk, chk.pid, known_h(chk))
        judged = 0
        with ThreadPoolExecutor(max_workers=min(core.NCPU, 12)) as pool:
            for num, (job, (bad, events)) in enumerate(zip(jobs, pool.map(replay_history_events, jobs))):
                chk.count(('mc', name, json.dumps([cmd_line(h['cmd']) for h in job[2]])))
                chk.traces += 1
                if bad and events is not None and nbad < 6 and judged < 6:
                    # the expectation was computed under the shipped rule of the listed findings: a tree on which a finding
                    # is repaired differs from it legitimately - the recorded execution itself is judged (two passes)
                    judged += 1
                    before = len(chk.violations)
                    rej = eng.validate([{'id': f'mc-{name}-{num}', 'cx': cx, 'events': events, 'prog': prog}])
                    if not rej and len(chk.violations) == before:
                        continue
                    if len(chk.violations) != before:
                        nbad += 1
                        bad = []
                if bad and nbad < 6:
                    nbad += 1
                    clause, exp, got = bad[0]
                    chk.violation(f'TLC behaviour replayed on the compiled shell ({name}): {clause}: model {json.dumps(exp)[:260]} '
                                  f'observed {json.dumps(got)[:260]}',
                                  {'program': name, 'decls': decls, 'cfg': cfg, 'cx': cx,
                                   'commands': [cmd_line(c) for c in job[1]] + [cmd_line(h['cmd']) for h in job[2]]})


# ----------------------------------------------------------------------------------------------
# the wiring net: many models, no compiler; disagreements are confirmed on the compiled program
# ----------------------------------------------------------------------------------------------

FACT_OWNER = {'reroute-in': 'C01', 'reroute-out': 'C01', 'ref-out': 'C01', 'ref-in': 'C01', 'mc-out': 'C01', 'mc-ref-out': 'C01',
              'client-claim': 'C04', 'client-release': 'C04', 'client-ref': 'C01', 'unparsed': 'C01',
              'accessor': 'C02', 'member': 'C02', 'meta-name': 'C02',
              'check': 'C10', 'mc-final': 'C10', 'check-encapsulee': 'C10', 'parent': 'C10', 'origin': 'C09'}


def scan_model(args):
    decls, cfg, grant, idx = args
    from . import scan  # pylint: disable=import-outside-toplevel
    core.repo_guard()
    prog = cxx.Program(decls, cfg)
    try:
        if not prog.generate():
            return None
    except AssertionError:
        return None
    info = prog.info
    facts = scan.scan(prog.files[info.shell_name + '.cc'], [p['name'] for p in info.ports], info.shell_name)
    return {'decls': decls, 'cfg': cfg, 'grant': grant, 'idx': idx, 'facts': facts}


def wiring_net(chk, eng, tier, seed, count):
    """Build `count` random models, scan the generated source, let TLC compare with WiringOf; every model on which they
    disagree is compiled and driven (events, bindings, facilities) - only executions can report a violation."""
    import multiprocessing  # pylint: disable=import-outside-toplevel
    rng = random.Random(seed * 77 + int(chk.pid[1:]))
    jobs = []
    for i in range(count):
        decls, cfg, grant = gen_model(rng, want_mc=None if i % 3 else True, clash=(i % 5 == 0))
        jobs.append((decls, cfg, grant, i))
    with multiprocessing.Pool(min(core.NCPU, 16)) as pool:
        scanned = [r for r in pool.map(scan_model, jobs, chunksize=20) if r is not None]
    def for_tlc(decls):
        out = []
        for dcl in decls:
            dcl = dict(dcl, cppref=False)
            if dcl['kind'] == 'extern' and dcl['cpp'].rstrip().endswith('&'):
                dcl['cpp'], dcl['cppref'] = dcl['cpp'].rstrip()[:-1].rstrip(), True
            out.append(dcl)
        return out
    traces = []
    for rec in scanned:
        traces.append({'id': f'w{rec["idx"]}', 'events': [{'decls': for_tlc(rec['decls']), 'cfg': rec['cfg'], 'scan': True, 'wiring': rec['facts'],
                                                          'obs': {'ok': True, 'stage': 'build', 'family': '', 'files': 8, 'exc': ''}}]})
        chk.count(('wiring', rec['idx']))
    chk.extra['wiring_models_scanned'] = len(scanned)
    by_id = {t['id']: rec for t, rec in zip(traces, scanned)}
    rejected = core.validate_traces(chk, 'ShellTrace', 'ShellTrace.cfg', traces, batch=500)
    chk.extra['wiring_disagreements'] = len(rejected)
    promoted = []
    for num, (trace, pos) in enumerate(rejected[:12]):
        rec = by_id[trace['id']]
        exp = core.explain_trace('ShellTrace', 'ShellTrace.cfg', trace, pos) if num < 6 else None
        missing = extra = []
        if isinstance(exp, dict):
            want = {json.dumps(f, sort_keys=True) for f in exp.get('wiring', [])}
            have = {json.dumps(f, sort_keys=True) for f in rec['facts']}
            missing, extra = sorted(want - have)[:4], sorted(have - want)[:4]
        promoted.append((rec, missing, extra))
    for rec, missing, extra in promoted:
        chk.disagreements_checked += 1
        prog = cxx.Program(rec['decls'], rec['cfg'])
        prog.grant = rec['grant']
        note = f'wiring of model w{rec["idx"]} differs from WiringOf (missing {missing}, unexpected {extra})'
        if not prog.compile():
            eng.compile_failure(prog)
            continue
        chk.programs += 1
        route, origin = prog.info.route(), prog.info.origin
        rng2 = random.Random(seed + rec['idx'])
        jobs2 = [(prog, event_script(route, origin, rng2, 60, prog.grant), 'promoted-events') for _ in range(6)] + \
                [(prog, binding_script(route, origin, rng2), 'promoted-bindings') for _ in range(8)] + \
                [(prog, facility_script(route, origin, rng2), 'promoted-facilities')]
        before = len(chk.violations)
        eng.validate(eng.execute(jobs2))
        if len(chk.violations) == before:
            chk.notes.append(note + ': confirmed harmless by execution')
        else:
            chk.notes.append(note + ': CONFIRMED by execution')
