"""C20: cpp_gen building blocks render matching declarations and definitions."""
import json
import os
import random
import re
import subprocess

from . import core
from .parser_checks import replay_parallel

TOKEN = re.compile(r'//[^\n]*|::|"[^"\n]*"|[A-Za-z_0-9]+|\S')


def tokenize(text):
    out = []
    for tok in TOKEN.findall(text):
        if tok.startswith('//'):
            tok = '//' + ' '.join(tok[2:].split())
            # '// namespace A::B' -> '//namespace', 'A', '::', 'B'
            words = tok[2:].split()
            out.append('//' + (words[0] if words else ''))
            for word in words[1:]:
                out.extend(TOKEN.findall(word))
        else:
            out.append(tok)
    return out


def text_of(tokens):
    txt = ' '.join(tokens)
    return txt.replace('{ }', '{}').replace('( ', '(').replace(' )', ')')


def make_type(cpp, scoping, tdesc, default=None):
    post = {'': cpp.TypePostfix.NONE, '&': cpp.TypePostfix.REFERENCE, '*': cpp.TypePostfix.POINTER}[tdesc['post']]
    targ = cpp.TemplateArg(cpp.Fqn(scoping.ns_ids_t(list(tdesc['targ'])))) if tdesc['targ'] else None
    return cpp.TypeDesc(fqn=cpp.Fqn(scoping.ns_ids_t(list(tdesc['ids'])), tdesc['root']), template_arg=targ, postfix=post,
                        const=tdesc['const'], default_value=default)


def make_object(d, name=None):
    core.repo_guard()
    from dznpy import cpp_gen as cpp, scoping  # pylint: disable=import-outside-toplevel
    params = [cpp.Param(make_type(cpp, scoping, p['type'], text_of(p['def']) if p['def'] else ''), p['name'])
              for p in d.get('params', [])]
    body = '\n'.join(text_of(line) for line in d['body'])
    init = text_of(d['init'])
    if d['kind'] == 'function':
        prefix = {'': cpp.FunctionPrefix.MEMBER_FUNCTION, 'virtual': cpp.FunctionPrefix.VIRTUAL,
                  'static': cpp.FunctionPrefix.STATIC}[d['prefix']]
        return cpp.Function(return_type=make_type(cpp, scoping, d['ret']), name=name or d['name'], params=params,
                            prefix=prefix, cav=d['cav'], override=d['override'], initialization=init, contents=body,
                            scope=cpp.Struct(d['scope']) if d['scope'] else None)
    if d['kind'] == 'ctor':
        return cpp.Constructor(scope=cpp.Struct(d['scope']), explicit=d['explicit'], params=params, initialization=init,
                               member_initlist=[''.join(m) for m in d['mil']], contents=body)
    return cpp.Destructor(scope=cpp.Class(d['scope']), override=d['override'], initialization=init, contents=body)


def replay_cppgen_case(case):
    core.repo_guard()
    from dznpy import cpp_gen as cpp, scoping  # pylint: disable=import-outside-toplevel
    from dznpy.text_gen import TextBlock  # pylint: disable=import-outside-toplevel
    d = case['d']
    bad = []
    try:
        if d['kind'] in ('section', 'includes', 'member'):
            if d['kind'] == 'section':
                lines = ['int x;', 'int y;'][:d['lines']]
                spec = {'': cpp.AccessSpecifier.ANONYMOUS, 'public': cpp.AccessSpecifier.PUBLIC,
                        'protected': cpp.AccessSpecifier.PROTECTED, 'private': cpp.AccessSpecifier.PRIVATE}[d['spec']]
                text = str(cpp.AccessSpecifiedSection(access_specifier=spec, contents=TextBlock(lines)))
            elif d['kind'] == 'includes':
                names = [n['raw'] for n in d['names']]
                text = str((cpp.SystemIncludes if d['system'] else cpp.ProjectIncludes)(names))
            else:
                text = str(cpp.MemberVariable(make_type(cpp, scoping, d['type']), d['name']))
            got = tokenize(text)
            if got != case['toks']:
                bad.append((d['kind'], text_of(case['toks']), text_of(got)))
            return bad
        if d['kind'] == 'block':
            lines = ['int x;', 'int y;'][:d['lines']]

            def contents():
                if d.get('ck') == 'header':
                    return TextBlock(lines, header='int h;')
                if d.get('ck') == 'comment':
                    return cpp.Comment(lines)
                return TextBlock(lines)
            kls = cpp.Struct if d['kw'] == 'struct' else cpp.Class
            if d.get('ck') in ('later', 'set'):
                # sibling blocks created without contents and filled in place with other text, before and after
                sib_ns, sib_st = cpp.Namespace(scoping.ns_ids_t(['Sib'])), kls('Sib')
                sib_ns.contents.append('int z;')
                sib_st.contents.append('int z;')
                nsp, stc = cpp.Namespace(scoping.ns_ids_t(list(d['ids']))), kls('S')
                if d['ck'] == 'later':
                    nsp.contents.append(lines)
                    stc.contents += lines
                else:
                    nsp.contents = TextBlock(lines)
                    stc.contents = TextBlock(lines)
                sib2_ns, sib2_st = cpp.Namespace(scoping.ns_ids_t(['Sib2'])), kls('Sib2')
                sib2_ns.contents.append('int w;')
                sib2_st.contents.append('int w;')
                for sib in (sib_ns, sib_st):
                    body = [ln.strip() for ln in str(sib).split('\n')]
                    if 'int z;' not in body or any(x in body for x in ('int w;', 'int x;', 'int y;')):
                        bad.append(('sibling block keeps its own contents', 'int z; only', str(sib)))
            else:
                nsp = cpp.Namespace(scoping.ns_ids_t(list(d['ids'])), contents=contents())
                stc = kls('S', contents())
            got = tokenize(str(nsp))
            if got != case['ns']:
                bad.append(('namespace block', case['ns'], got))
            if str(nsp).count('{') != str(nsp).count('}'):
                bad.append(('balanced braces', True, False))
            got = tokenize(str(stc))
            if got != case['st']:
                bad.append((f'{d["kw"]} block', case['st'], got))
            if lines and d.get('ck') != 'comment' and not all(ln in str(stc).split('\n') for ln in lines):
                bad.append(('contents unchanged', lines, str(stc)))
            return bad
        try:
            obj = make_object(d)
        except cpp.CppGenError as exc:
            if case['valid']:
                bad.append(('valid description refused', 'object', f'CppGenError: {exc}'))
            return bad
        if not case['valid']:
            return [('invalid description accepted', 'CppGenError', 'object')]
        decl, dfn = tokenize(obj.as_decl), tokenize(obj.as_def)
        # rendering is a function of the description as it is NOW: change a field after rendering, render, change it back
        try:
            import dataclasses  # pylint: disable=import-outside-toplevel
            fields = [f.name for f in dataclasses.fields(obj)] if dataclasses.is_dataclass(obj) else []
            probe = next((f for f in ('name', 'contents', 'initialization') if f in fields), None)
            if probe is not None:
                original = getattr(obj, probe)
                changed = 'renamed' if probe == 'name' else None
                setattr(obj, probe, changed)
                try:
                    _ = (obj.as_decl, obj.as_def)
                except Exception:  # pylint: disable=broad-except
                    pass                       # the intermediate description need not be valid
                setattr(obj, probe, original)
                again = (tokenize(obj.as_decl), tokenize(obj.as_def))
                if again != (decl, dfn):
                    bad.append((f'rendering after {probe} was changed and restored', (text_of(decl), text_of(dfn)),
                                (text_of(again[0]), text_of(again[1]))))
                twin = __import__('copy').copy(obj)
                if probe == 'name':
                    twin.name = 'twin'
                    if tokenize(obj.as_decl) != decl or 'twin' not in twin.as_decl:
                        bad.append(('a copy of a rendered description renders its own fields', 'twin', twin.as_decl))
        except (AttributeError, TypeError):
            pass                               # frozen description: nothing to probe
        if decl != case['decl']:
            bad.append(('declaration', text_of(case['decl']), text_of(decl)))
        if dfn != case['def']:
            bad.append(('definition', text_of(case['def']), text_of(dfn)))
        return bad
    except Exception as exc:  # pylint: disable=broad-except
        return [('exception', None, f'{type(exc).__name__}: {exc}')]


PRELUDE = 'namespace ns { struct T {}; template <typename X> struct Box {}; }\n'


def well_formed_cpp(d):
    """Combinations C++ itself allows (the property's 'any composition' is about blocks, not about asking for
    ill-formed members such as `static ... const` or `= default` on an ordinary function)."""
    seen_default = False
    for prm in d.get('params', []):           # C++ requires defaulted parameters to be trailing
        if prm['def']:
            seen_default = True
        elif seen_default:
            return False
    if d['kind'] == 'function':
        if d['override'] or d['init'] == ['default']:
            return False
        if d['cav'] and (d['prefix'] == 'static' or not d['scope']):
            return False
        if not d['scope'] and d['prefix'] == 'virtual':
            return False
        if d['ret']['post'] == '&' and not d['init']:
            return False                      # a body without return for a reference type: still only a warning, keep simple
        return True
    if d['kind'] == 'ctor':
        return not (d['init'] == ['default'] and d['params'])
    return not d['override']


def compose(members, ids, kw):
    """Render a class in a namespace from real cpp_gen objects: declarations in the body, definitions after it."""
    core.repo_guard()
    from dznpy import cpp_gen as cpp, scoping  # pylint: disable=import-outside-toplevel
    from dznpy.text_gen import TextBlock  # pylint: disable=import-outside-toplevel
    decls, defs, free_decls = [], [], []
    for i, d in enumerate(members):
        obj = make_object(d, name=f'f{i}')
        if d['kind'] == 'function' and not d['scope']:
            free_decls.append(obj.as_decl)
        else:
            decls.append(obj.as_decl)
        defs.append(obj.as_def)
    body = TextBlock(['public:' if kw == 'class' else None, decls, 'int m_a;', 'int m_b;'])
    stc = (cpp.Struct if kw == 'struct' else cpp.Class)('S', body)
    nsi = scoping.ns_ids_t(list(ids))
    first = cpp.Namespace(nsi, contents=TextBlock([free_decls, str(stc)]))
    second = cpp.Namespace(nsi, contents=TextBlock(defs))
    return PRELUDE + str(first) + str(second)


def compile_cpp(source, tag):
    path = os.path.join(core.subdir('c20'), f'{tag}.cc')
    with open(path, 'w', encoding='utf-8') as fil:
        fil.write(source)
    proc = subprocess.run(['g++', '-std=c++17', '-fsyntax-only', '-w', path], capture_output=True, text=True, check=False)
    return proc.returncode == 0, proc.stderr[:600]


def compile_composition(args):
    members, ids, kw, tag = args
    try:
        src = compose(members, ids, kw)
    except Exception as exc:  # pylint: disable=broad-except
        return [('composition raised', None, f'{type(exc).__name__}: {exc}')]
    okay, err = compile_cpp(src, tag)
    return [] if okay else [('g++ -std=c++17 -fsyntax-only rejects the composition', 'accepted', err + '\n' + src[:1500])]


def helper_equivalences(chk):
    """The shortcut creators of cpp_gen (fqn_t, void_t .. double_t, decl_var_*_t, param_t, const_param_*_t) yield exactly the
    renderings of the explicit constructions that the model decides (only renderings are compared, not the objects)."""
    core.repo_guard()
    from dznpy import cpp_gen as cpp, scoping  # pylint: disable=import-outside-toplevel
    post = cpp.TypePostfix

    def same(what, helper, explicit, renders=('__str__',)):
        chk.count(('helper', what))
        try:
            got, exp = helper(), explicit()
            for attr in renders:
                gval = str(got) if attr == '__str__' else getattr(got, attr)
                xval = str(exp) if attr == '__str__' else getattr(exp, attr)
                if gval != xval:
                    chk.violation(f'{what}: renders {gval!r}, the explicit construction {xval!r}', {'helper': what})
                    return
        except Exception as exc:  # pylint: disable=broad-except
            chk.violation(f'{what}: {type(exc).__name__}: {exc}', {'helper': what})
    for ids in ([], ['T'], ['ns', 'T'], ['a', 'b', 'c']):
        for root in (False, True):
            same(f'fqn_t({ids}, {root})', lambda: cpp.fqn_t(list(ids), root), lambda: cpp.Fqn(scoping.ns_ids_t(list(ids)), root))
            if ids:
                same(f'fqn_t("{".".join(ids)}", {root})', lambda: cpp.fqn_t('.'.join(ids), root),
                     lambda: cpp.Fqn(scoping.ns_ids_t(list(ids)), root))
                fqn = cpp.Fqn(scoping.ns_ids_t(list(ids)), root)
                for name, pfx in (('decl_var_t', post.NONE), ('decl_var_ref_t', post.REFERENCE), ('decl_var_ptr_t', post.POINTER)):
                    same(f'{name}({ids}, {root})', lambda: getattr(cpp, name)(fqn, 'm_x'),
                         lambda: cpp.MemberVariable(type=cpp.TypeDesc(fqn=fqn, postfix=pfx), name='m_x'))
                for dflt in ('', '3'):
                    same(f'param_t({ids}, {root}, {dflt!r})', lambda: cpp.param_t(fqn, 'p', dflt),
                         lambda: cpp.Param(type_desc=cpp.TypeDesc(fqn, default_value=dflt), name='p'), ('as_decl', 'as_def'))
                    for name, pfx in (('const_param_ref_t', post.REFERENCE), ('const_param_ptr_t', post.POINTER)):
                        same(f'{name}({ids}, {root}, {dflt!r})', lambda: getattr(cpp, name)(fqn, 'p', dflt),
                             lambda: cpp.Param(type_desc=cpp.TypeDesc(fqn=fqn, postfix=pfx, const=True, default_value=dflt), name='p'),
                             ('as_decl', 'as_def'))
                same(f'param_t({ids}, {root}) without default', lambda: cpp.param_t(fqn, 'p'),
                     lambda: cpp.Param(type_desc=cpp.TypeDesc(fqn), name='p'), ('as_decl', 'as_def'))
        same(f'fqn_t(None)', lambda: cpp.fqn_t(None), lambda: cpp.Fqn(scoping.ns_ids_t([]), False))
    for name in ('void', 'int', 'float', 'double'):
        same(f'{name}_t()', getattr(cpp, name + '_t'), lambda: cpp.TypeDesc(fqn=cpp.Fqn(scoping.ns_ids_t([name]), False)))


def check_c20(tier, seed):
    chk = core.Check('C20', tier, seed)
    core.repo_guard()
    chk.rule = ('TLC enumerates every description of CppGenCases.tla: 29952 functions (4 return types x 21 parameter lists '
                'incl. defaults before non-defaults x prefix x cav x override x 4 initialisations x 3 bodies x owner), 1404 '
                'constructors, 18 destructors, 24 namespace/struct/class blocks; SameEntity and NoDefWhenInitialised are TLC '
                'invariants; the real as_decl/as_def/str() are tokenised and compared with the model token sequences; '
                'compositions of <=4 well-formed members in a class in a namespace are compiled with g++ -fsyntax-only. Also: blocks filled in place next to sibling blocks, re-rendering after a field was changed and restored, copies of rendered descriptions, constructor owner named like a parameter type, the shortcut creators (fqn_t, *_t) against the explicit constructions.')
    pools = {}
    for mode in ('function', 'ctor', 'dtor', 'block', 'parts'):
        res = chk.tlc('CppGenCases', f'CppGen_{mode}.cfg')
        cases = res.emitted()
        if not cases:
            raise core.MachineryError(f'{mode}: no cases')
        chk.sample(cases[len(cases) // 2])
        replay_parallel(chk, cases, replay_cppgen_case, mode, lambda c: json.dumps(c['d'], sort_keys=True))
        if mode != 'parts':
            # (compositions put the members into a class called S)
            pools[mode] = [c['d'] for c in cases if c.get('valid') and well_formed_cpp(c['d']) and c['d'].get('scope', 'S') in ('', 'S')]
        chk.traces += len(cases)
    rng = random.Random(seed + 20)
    jobs = []
    for n in range(48 if tier == 'quick' else 1500):
        members = [rng.choice(pools['function']) for _ in range(rng.randint(1, 3))]
        if rng.random() < 0.8:
            members.append(rng.choice(pools['ctor']))
        if rng.random() < 0.5:
            members.append(rng.choice(pools['dtor']))
        jobs.append((members, rng.choice([[], ['A'], ['A', 'B'], ['A', 'B', 'C']]), rng.choice(['struct', 'class']), f'comp{n}'))
    replay_parallel(chk, jobs, compile_composition, 'composition', lambda j: j[3])
    helper_equivalences(chk)
    chk.programs = len(jobs)
    chk.exhaustive = True
    chk.assumptions = ['compositions are restricted to member combinations C++ allows (no static+const, = default only on '
                       'special members, no override without a base, = 0 only with virtual)',
                       'g++ 12 -std=c++17 -fsyntax-only is the compiler oracle (errors only)']
    return chk.finish()
