"""C17 (text blocks), C18 (indentation), C19 (comments): replay of TLC-enumerated cases and histories
through the real text layer, and validation of recorded executions by TextBlockTrace.tla."""
import copy
import random

from . import core
from .textval import to_py, s2py, py2s, lines2py, py2lines, rand_value, rand_text, header_of


def _mods():
    core.repo_guard()
    from dznpy import text_gen, misc_utils, cpp_gen  # pylint: disable=import-outside-toplevel
    return text_gen, misc_utils, cpp_gen


def make_indentizer(text_gen, cfg):
    indentor = text_gen.Indentor.TAB if cfg['tab'] else text_gen.Indentor.SPACES
    bullets = None
    if cfg['mode'] != 'none':
        mode = text_gen.BulletListMode.ALL if cfg['mode'] == 'all' else text_gen.BulletListMode.FIRST_ONLY
        bullets = text_gen.BulletList(mode=mode, glyph=s2py(cfg['glyph']))
    return text_gen.Indentizer(indentor=indentor, spaces_count=cfg['n'], bullet_list=bullets)


def _guard(fn):
    """Run fn; an exception of the implementation is an observation, not a harness crash."""
    try:
        return fn()
    except RecursionError:
        return ('EXC', 'RecursionError')
    except Exception as exc:  # pylint: disable=broad-except
        return ('EXC', type(exc).__name__ + ': ' + str(exc)[:120])


# ----------------------------------------------------------------------------------------------
# spec -> code: value cases
# ----------------------------------------------------------------------------------------------

def replay_value_case(case, mods, which):
    """Return a list of (clause, expected, got) mismatches for one TextCases case."""
    text_gen, misc_utils, cpp_gen = mods
    bad = []

    def cmp(clause, exp, got):
        if exp != got:
            bad.append((clause, exp, got))

    if case['mode'] == 'cond':
        v = case['v']
        res = _guard(lambda: text_gen.cond_chunk(to_py(v['pre'], text_gen), to_py(v['content'], text_gen),
                                                 to_py(v['empty'], text_gen), to_py(v['appendix'], text_gen),
                                                 v['aon']))
        got = {'some': False, 'ls': []} if res is None else (
            {'some': True, 'ls': py2lines(res.lines)} if isinstance(res, text_gen.TextBlock) else res)
        cmp('cond_chunk', case['r'], got)
        return bad

    v = case['v']
    if which in ('C17', 'all'):
        cmp('TextBlock(v).lines', case['app'], _guard(lambda: py2lines(text_gen.TextBlock(to_py(v, text_gen)).lines)))
        cmp('TextBlock().append(v).lines', case['app'],
            _guard(lambda: py2lines(text_gen.TextBlock().append(to_py(v, text_gen)).lines)))

        def iadd():
            blk = text_gen.TextBlock()
            blk += to_py(v, text_gen)
            return py2lines(blk.lines)
        cmp('TextBlock() += v', case['app'], _guard(iadd))
        cmp('str(TextBlock(v))', case['str'], _guard(lambda: py2s(str(text_gen.TextBlock(to_py(v, text_gen))))))
        cmp('flatten(skip=True)', case['flT'],
            _guard(lambda: py2lines(misc_utils.flatten_to_strlist(to_py(v, text_gen), True))))
        cmp('flatten(skip=False)', case['flF'],
            _guard(lambda: py2lines(misc_utils.flatten_to_strlist(to_py(v, text_gen), False))))
        res = _guard(lambda: text_gen.chunk(to_py(v, text_gen)))
        got = {'some': False, 'ls': []} if res is None else (
            {'some': True, 'ls': py2lines(res.lines)} if isinstance(res, text_gen.TextBlock) else res)
        cmp('chunk(v)', case['chunk'], got)
        cmp('trim', case['trim'], _guard(lambda: py2lines(text_gen.TextBlock(to_py(v, text_gen)).trim().lines)))
        cmp('trim(end_only)', case['trimEnd'],
            _guard(lambda: py2lines(text_gen.TextBlock(to_py(v, text_gen)).trim(end_only=True).lines)))
        cmp('trim_list', case['trim'],
            _guard(lambda: py2lines(misc_utils.trim_list(lines2py(case['app'])))))
        if v['k'] != 'block':
            cmp('truthy', case['truthy'], bool(to_py(v, text_gen)))
    if which in ('C19', 'all'):
        def render():
            cmt = cpp_gen.Comment(to_py(v, text_gen))
            before = copy.deepcopy(cmt.lines)
            first = str(cmt)
            second = str(cmt)
            if cmt.lines != before:
                return ('rendering changed the comment object', before, cmt.lines)
            if first != second:
                return ('second rendering differs', first, second)
            return py2s(first)
        cmp('str(Comment(v))', case['render'], _guard(render))
    return bad


def replay_history(case, mods):
    """Replay one TextBlock/Comment history; compare after the last call (all prefixes are cases too)."""
    text_gen, _, cpp_gen = mods
    obj = None
    try:
        for op in case['hist']:
            kind = op['op']
            if kind == 'new':
                if case['comment']:
                    obj = cpp_gen.Comment(to_py(op['c'], text_gen))
                else:
                    obj = text_gen.TextBlock(to_py(op['c'], text_gen), header=to_py(op['h'], text_gen))
            elif kind == 'append':
                ret = obj.append(to_py(op['c'], text_gen))
                if ret is not obj:
                    return [('append returns self', True, False)]
            elif kind == 'iadd':
                obj += to_py(op['c'], text_gen)
            elif kind == 'add':
                before = (copy.deepcopy(obj.lines), header_of(obj))
                new = obj + to_py(op['c'], text_gen)
                if (obj.lines, header_of(obj)) != before:
                    return [('+ must not change its left operand', before, (obj.lines, header_of(obj)))]
                obj = new
            elif kind == 'trim':
                obj.trim(end_only=op['endOnly'])
            elif kind == 'indent':
                obj.indent(make_indentizer(text_gen, op['cfg']))
            elif kind == 'indentbare':
                if obj.indent() is not obj:
                    return [('indent returns self', True, False)]
            elif kind == 'setind':
                if obj.set_indentor(make_indentizer(text_gen, op['cfg'])) is not obj:
                    return [('set_indentor returns self', True, False)]
            elif kind == 'render':
                before = copy.deepcopy(obj.lines)
                str(obj)
                if obj.lines != before:
                    return [('render is read-only', before, obj.lines)]
        bad = []
        if py2lines(obj.lines) != case['lines']:
            bad.append(('lines', case['lines'], py2lines(obj.lines)))
        if not case['comment'] and py2lines(header_of(obj)) != case['hdr']:
            bad.append(('header', case['hdr'], py2lines(header_of(obj))))
        exp_str = case['render'] if case['comment'] else case['str']
        if py2s(str(obj)) != exp_str:
            bad.append(('str', exp_str, py2s(str(obj))))
        return bad
    except RecursionError:
        return [('exception', None, 'RecursionError')]
    except Exception as exc:  # pylint: disable=broad-except
        return [('exception', None, f'{type(exc).__name__}: {exc}')]


def replay_indent_case(case, mods):
    text_gen = mods[0]
    bad = []
    ls = lines2py(case['ls'])
    cfg = case['cfg']

    def cmp(clause, exp, got):
        if exp != got:
            bad.append((clause, exp, got))

    cmp('to_list', case['out'], _guard(lambda: py2lines(make_indentizer(text_gen, cfg).to_list(list(ls)))))
    cmp('to_str', case['str'], _guard(lambda: py2s(make_indentizer(text_gen, cfg).to_str(list(ls)))))
    # the predefined indenters: all_dashes_t / initial_dash_t are this configuration made by a factory function
    if cfg['glyph'] == [45] and cfg['n'] == 2 and cfg['mode'] in ('all', 'first'):
        factory = text_gen.all_dashes_t if cfg['mode'] == 'all' else text_gen.initial_dash_t
        name = factory.__name__
        # indenters made earlier or later by either factory are independent objects
        before = (text_gen.all_dashes_t(), text_gen.initial_dash_t())
        made = factory(text_gen.Indentor.TAB) if cfg['tab'] else factory()
        after = (text_gen.initial_dash_t(), text_gen.all_dashes_t(text_gen.Indentor.TAB))
        cmp(f'{name}(..) made between other factory calls', case['out'], _guard(lambda: py2lines(made.to_list(list(ls)))))
        del before, after
        if cfg['tab']:
            cmp(f'{name}(Indentor.TAB).to_list', case['out'], _guard(lambda: py2lines(factory(text_gen.Indentor.TAB).to_list(list(ls)))))
        else:
            cmp(f'{name}().to_list', case['out'], _guard(lambda: py2lines(factory().to_list(list(ls)))))
            cmp(f'{name}(Indentor.SPACES).to_list', case['out'],
                _guard(lambda: py2lines(factory(text_gen.Indentor.SPACES).to_list(list(ls)))))
            cmp(f'{name}(None).to_list', case['out'], _guard(lambda: py2lines(factory(None).to_list(list(ls)))))

    def block_indent():
        given = text_gen.TextBlock('H e a d')            # the header handed over as a TextBlock of the caller ...
        blk = text_gen.TextBlock(header=given)
        given.indent()                                   # ... which the caller goes on using: the block keeps its own header
        given.append('more')
        blk.lines = list(ls)
        ret = blk.indent(make_indentizer(text_gen, cfg))
        if ret is not blk:
            return 'indent must return self'
        hdr = header_of(blk)
        if hdr != ['H e a d'] or (blk.lines and not str(blk).startswith('H e a d\n')):
            return f'header changed: {hdr!r}'
        if case['twice']:
            blk.indent(make_indentizer(text_gen, case['cfg2']))
            return py2lines(blk.lines)
        return py2lines(blk.lines)
    cmp('TextBlock.indent', case['out2'] if case['twice'] else case['out'], _guard(block_indent))
    return bad


# ----------------------------------------------------------------------------------------------
# code -> spec: recorded executions
# ----------------------------------------------------------------------------------------------

def rand_cfg(rng):
    mode = rng.choice(['none', 'none', 'all', 'first'])
    glyph = [] if mode == 'none' else py2s(rng.choice(['-', '//', '*', '>>>>', '->', '#', 'fatglyph']))
    return {'tab': rng.random() < 0.25, 'n': rng.choice([0, 1, 2, 3, 4, 4, 5, 8]), 'mode': mode, 'glyph': glyph}


def record_text_trace(rng, tid, mods, flavour):
    """Drive the real objects with random calls and log every call with its observable result."""
    text_gen, misc_utils, cpp_gen = mods
    events = []

    def obs_block(obj):
        return {'hdr': py2lines(header_of(obj)) if type(obj).__name__ != 'Comment' else [], 'lines': py2lines(obj.lines), 'str': py2s(str(obj))}

    def opt(res):
        return {'some': False, 'ls': []} if res is None else {'some': True, 'ls': py2lines(res.lines)}

    if flavour == 'comment':
        c = rand_value(rng, 2)
        obj = cpp_gen.Comment(to_py(c, text_gen))
        events.append({'op': 'comment', 'c': c, 'h': {'k': 'none'}, 'obs': {
            'hdr': [], 'lines': py2lines(obj.lines), 'str': py2s(str(text_gen.TextBlock(obj.lines)))}})
        for _ in range(rng.randint(1, 5)):
            if rng.random() < 0.5:
                events.append({'op': 'render', 'obs': {'str': py2s(str(obj))}})
            else:
                c = rand_value(rng, 2)
                how = rng.choice(['append', 'iadd'])
                if how == 'append':
                    obj.append(to_py(c, text_gen))
                else:
                    obj += to_py(c, text_gen)
                events.append({'op': how, 'c': c, 'obs': {
                    'hdr': [], 'lines': py2lines(obj.lines), 'str': py2s(str(text_gen.TextBlock(obj.lines)))}})
        events.append({'op': 'render', 'obs': {'str': py2s(str(obj))}})
        return {'id': tid, 'events': events}

    if flavour == 'functions':
        for _ in range(rng.randint(2, 6)):
            kind = rng.choice(['flatten', 'chunk', 'condchunk', 'tolist', 'trimlist'])
            if kind == 'flatten':
                c, skip = rand_value(rng, 3), rng.random() < 0.5
                events.append({'op': kind, 'c': c, 'skip': skip, 'obs': {
                    'out': py2lines(misc_utils.flatten_to_strlist(to_py(c, text_gen), skip))}})
            elif kind == 'chunk':
                c, a = rand_value(rng, 2), rng.choice([{'k': 'str', 's': [10]}, rand_value(rng, 1)])
                events.append({'op': kind, 'c': c, 'a': a,
                               'obs': opt(text_gen.chunk(to_py(c, text_gen), to_py(a, text_gen)))})
            elif kind == 'condchunk':
                pre, c, emp = rand_value(rng, 1), rand_value(rng, 2), rand_value(rng, 1)
                a, aon = rng.choice([{'k': 'str', 's': [10]}, rand_value(rng, 1)]), rng.random() < 0.5
                events.append({'op': kind, 'pre': pre, 'c': c, 'empty': emp, 'a': a, 'aon': aon,
                               'obs': opt(text_gen.cond_chunk(to_py(pre, text_gen), to_py(c, text_gen),
                                                              to_py(emp, text_gen), to_py(a, text_gen), aon))})
            elif kind == 'tolist':
                c, cfg = rand_value(rng, 2), rand_cfg(rng)
                ind = make_indentizer(text_gen, cfg)
                events.append({'op': kind, 'c': c, 'cfg': cfg, 'obs': {
                    'out': py2lines(ind.to_list(to_py(c, text_gen))),
                    'str': py2s(ind.to_str(to_py(c, text_gen)))}})
            else:
                ls = [py2s(rng.choice(['', '', ' ', 'a', rand_text(rng, breaks=False)]))
                      for _ in range(rng.randint(0, 5))]
                end = rng.random() < 0.5
                events.append({'op': kind, 'ls': ls, 'endOnly': end, 'obs': {
                    'out': py2lines(misc_utils.trim_list(lines2py(ls), end))}})
        return {'id': tid, 'events': events}

    c, h = rand_value(rng, 2), rng.choice([{'k': 'none'}, rand_value(rng, 1, allow_block=False)])
    obj = text_gen.TextBlock(to_py(c, text_gen), header=to_py(h, text_gen))
    events.append({'op': 'new', 'c': c, 'h': h, 'obs': obs_block(obj)})
    for _ in range(rng.randint(1, 7)):
        kind = rng.choice(['append', 'append', 'iadd', 'add', 'trim', 'indent', 'indent', 'setlines', 'indentbare',
                           'indentbare', 'setind'])
        if kind == 'append':
            c = rand_value(rng, 3)
            obj.append(to_py(c, text_gen))
            events.append({'op': kind, 'c': c, 'obs': obs_block(obj)})
        elif kind == 'iadd':
            c = rand_value(rng, 2)
            obj += to_py(c, text_gen)
            events.append({'op': kind, 'c': c, 'obs': obs_block(obj)})
        elif kind == 'add':
            c = rand_value(rng, 2)
            obj = obj + to_py(c, text_gen)
            events.append({'op': kind, 'c': c, 'obs': obs_block(obj)})
        elif kind == 'trim':
            end = rng.random() < 0.5
            obj.trim(end_only=end)
            events.append({'op': kind, 'endOnly': end, 'obs': obs_block(obj)})
        elif kind == 'indent':
            cfg = rand_cfg(rng)
            obj.indent(make_indentizer(text_gen, cfg))
            events.append({'op': kind, 'cfg': cfg, 'obs': obs_block(obj)})
        elif kind == 'indentbare':
            obj.indent()
            events.append({'op': kind, 'obs': obs_block(obj)})
        elif kind == 'setind':
            cfg = rand_cfg(rng)
            obj.set_indentor(make_indentizer(text_gen, cfg))
            events.append({'op': kind, 'cfg': cfg, 'obs': obs_block(obj)})
        else:
            ls = [py2s(rand_text(rng, breaks=False)) for _ in range(rng.randint(0, 3))]
            obj.lines = lines2py(ls)
            events.append({'op': kind, 'ls': ls, 'obs': obs_block(obj)})
    return {'id': tid, 'events': events}


def run_traces(chk, mods, seed, count, flavours, label):
    rng = random.Random(seed)
    traces = []
    crashed = 0
    for i in range(count):
        flav = flavours[i % len(flavours)]
        state = rng.getstate()
        try:
            traces.append(record_text_trace(rng, f'{label}-{flav}-{i}', mods, flav))
        except RecursionError:
            crashed += 1
            chk.violation(f'{flav} driver: implementation raised RecursionError',
                          {'flavour': flav, 'index': i, 'seed': seed})
        except Exception as exc:  # pylint: disable=broad-except
            crashed += 1
            chk.violation(f'{flav} driver: implementation raised {type(exc).__name__}: {exc}',
                          {'flavour': flav, 'index': i, 'seed': seed, 'rng_state': str(state)[:200]})
    chk.sample({'recorded_trace': traces[0]} if traces else {})
    rejected = core.validate_traces(chk, 'TextBlockTrace', 'TextBlockTrace.cfg', traces)
    for num, (trace, pos) in enumerate(rejected[:8]):
        exp = core.explain_trace('TextBlockTrace', 'TextBlockTrace.cfg', trace, pos) if num < 2 else \
            '<not computed: see the first two rejections>'
        ev = trace['events'][pos - 1]
        chk.violation(f'trace {trace["id"]} rejected at event {pos} ({ev["op"]}): model and implementation differ in '
                      f'{core.failing_clause(exp, ev.get("obs"))}',
                      {'trace': trace, 'position': pos, 'model_expected': exp, 'observed': ev.get('obs'),
                       'spec': 'TextBlockTrace.tla'})
    chk.count(n=len(traces))
    for trc in traces:
        chk.distinct.add(('trace', trc['id']))


_MODS = None


def _lazy_mods():
    global _MODS  # pylint: disable=global-statement
    if _MODS is None:
        _MODS = _mods()
    return _MODS


def par_value_c17(case):
    return replay_value_case(case, _lazy_mods(), 'C17')


def par_value_c19(case):
    return replay_value_case(case, _lazy_mods(), 'C19')


def par_history(case):
    return replay_history(case, _lazy_mods())


def par_indent(case):
    return replay_indent_case(case, _lazy_mods())


def _replay_cases(chk, cases, fn, label, key):
    """Replay in a process pool when fn is one of the module-level par_* functions, else sequentially."""
    if getattr(fn, '__name__', '').startswith('par_') and len(cases) > 2000:
        import multiprocessing  # pylint: disable=import-outside-toplevel
        nbad = 0
        with multiprocessing.Pool(min(core.NCPU, 16)) as pool:
            for case, bad in zip(cases, pool.imap(fn, cases, chunksize=500)):
                chk.count((label, key(case)))
                if bad and nbad <= 20:
                    nbad += 1
                    clause, exp, got = bad[0]
                    chk.violation(f'{label}: {clause}: model expects {str(exp)[:150]!r}, implementation gives {str(got)[:150]!r}',
                                  {'kind': label, 'case': case, 'mismatches': [list(map(str, b)) for b in bad[:5]]})
        return nbad
    nbad = 0
    for case in cases:
        chk.count((label, key(case)))
        bad = fn(case)
        if bad:
            nbad += 1
            clause, exp, got = bad[0]
            chk.violation(f'{label}: {clause}: model expects {str(exp)[:150]!r}, implementation gives {str(got)[:150]!r}',
                          {'kind': label, 'case': case, 'mismatches': [list(map(str, b)) for b in bad[:5]]})
            if nbad > 20:
                break
    return nbad


def check_c17(tier, seed):
    chk = core.Check('C17', tier, seed)
    mods = _mods()
    chk.rule = ('TLC enumerates every content value of the bounded universes of TextCases.tla (all strings up to '
                'length 2/3 over 15 code points incl. every Python line break; nested lists/dicts/blocks to depth 2; '
                'cond_chunk argument tuples) and every TextBlock history up to 3/4 calls; each is replayed through the '
                'real code. distinct = distinct cases/histories/traces.')
    cfgs = ['TextCases_atoms.cfg', 'TextCases_nested.cfg', 'TextCases_cond.cfg']
    if tier == 'thorough':
        cfgs[0] = 'TextCases_atoms3.cfg'
    for cfg in cfgs:
        res = chk.tlc('TextCases', cfg)
        cases = res.emitted()
        if not cases:
            raise core.MachineryError(f'{cfg}: TLC emitted no cases')
        chk.sample(cases[len(cases) // 2])
        _replay_cases(chk, cases, par_value_c17, cfg, lambda c: core.json.dumps(c['v']))
    res = chk.tlc('TextBlockMC', 'TextBlockMC.cfg' if tier == 'quick' else 'TextBlockMC4.cfg', coverage=True)
    hist = res.emitted()
    chk.sample(hist[len(hist) // 2])
    _replay_cases(chk, hist, par_history, 'history', lambda c: core.json.dumps(c['hist']))
    chk.traces += len(hist)
    run_traces(chk, mods, seed, 1500 if tier == 'quick' else 20000, ['block', 'functions'], f's{seed}')
    chk.exhaustive = True
    chk.assumptions = ['Python str/int semantics of the running interpreter',
                       'TextBlock.lines setter is only given break-free lines (the property speaks of content put '
                       'into a block)', 'TLC 1.8 evaluates the TLA+ operators of Text.tla faithfully']
    return chk.finish()


def check_c18(tier, seed):
    chk = core.Check('C18', tier, seed)
    mods = _mods()
    chk.rule = ('TLC enumerates every (indenter configuration, line sequence) of IndentCases.tla (spaces 0..5 or tab, no '
                'bullets / all / first only, 4 glyphs; <=2 lines of <=2/3 characters incl. blanks), plus all pairs of '
                'configurations for repeated indentation; IndentLaw is a TLC invariant; each case is replayed through '
                'Indentizer.to_list, to_str and TextBlock.indent with a header. Also: the predefined indenters all_dashes_t / initial_dash_t (made between other factory calls), a header handed over as a TextBlock the caller keeps using, the configured-indenter state of TextBlock (set_indentor, indent(x), bare indent()).')
    cfgs = ['IndentCases_quick.cfg', 'IndentCases_twice.cfg'] if tier == 'quick' else \
        ['IndentCases_thorough.cfg', 'IndentCases_twice.cfg']
    for cfg in cfgs:
        res = chk.tlc('IndentCases', cfg)
        cases = res.emitted()
        if not cases:
            raise core.MachineryError(f'{cfg}: TLC emitted no cases')
        chk.sample(cases[len(cases) // 3])
        _replay_cases(chk, cases, par_indent, cfg,
                      lambda c: core.json.dumps([c['cfg'], c['ls'], c['cfg2']]))
    res = chk.tlc('TextBlockMC', 'TextBlockMC.cfg')
    hist = [h for h in res.emitted() if any(op['op'] == 'indent' for op in h['hist'])]
    _replay_cases(chk, hist, par_history, 'history', lambda c: core.json.dumps(c['hist']))
    chk.traces += len(hist)
    run_traces(chk, mods, seed + 18, 1000 if tier == 'quick' else 10000, ['block', 'functions'], f'i{seed}')
    chk.exhaustive = True
    chk.assumptions = ['glyphs are non-empty and do not start or end with whitespace (WellFormedGlyph) for the '
                       'bullet clauses; other glyphs are only checked for model/code agreement']
    return chk.finish()


def check_c19_text(chk, tier, seed, mods):
    """The comment-object part of C19 (the build part lives in build_checks)."""
    for cfg in ['TextCases_atoms.cfg' if tier == 'quick' else 'TextCases_atoms3.cfg', 'TextCases_nested.cfg']:
        res = chk.tlc('TextCases', cfg)
        cases = res.emitted()
        chk.sample(cases[len(cases) // 2])
        _replay_cases(chk, cases, par_value_c19, 'comment:' + cfg,
                      lambda c: core.json.dumps(c['v']))
    res = chk.tlc('TextBlockMC', 'CommentMC.cfg', coverage=True)
    hist = res.emitted()
    chk.sample(hist[len(hist) // 2])
    _replay_cases(chk, hist, par_history, 'comment-history',
                  lambda c: core.json.dumps(c['hist']))
    chk.traces += len(hist)
    run_traces(chk, mods, seed + 19, 1000 if tier == 'quick' else 10000, ['comment'], f'c{seed}')
