"""C08 (pure function of model and configuration), C12 (inputs untouched, independent of earlier builds) and the
build part of C19 (copyright/creator only change comment lines).  All three are decided by BuildHistoryTrace.tla on
events recorded from real builds in this and in child interpreters."""
import dataclasses
import enum
import hashlib
import itertools
import json
import os
import random
import subprocess
import sys

from . import core, dzn, shell
from .parser_checks import _quiet

# ----------------------------------------------------------------------------------------------
# documents and named configurations
# ----------------------------------------------------------------------------------------------

# (the claim event's parameters are called like the generated claim lambda's own names: texts only, nothing is compiled here)
I1 = {'events': [dzn.event('Claim', 'in', ['Res'], [dzn.formal('identifier', ['T'], 'in'), dzn.formal('r', ['T'], 'out')]),
                 dzn.event('Release', 'in'), dzn.event('Use', 'in', ['void'], [dzn.formal('x', ['T'], 'inout')]),
                 dzn.event('Sig', 'out', ['void'], [dzn.formal('c', ['T'], 'in')])]}
I2 = {'events': [dzn.event('Cmd', 'in', ['bool'], [dzn.formal('x', ['T'], 'in')]),
                 dzn.event('Note', 'out', ['void'], [dzn.formal('y', ['T'], 'in')])]}
# The port names the models and scenarios call p1..p3 / r1..r3 are look-alikes in the documents actually built: names that
# tie under a case-insensitive or "natural" (numeric) ordering must not make the output depend on set iteration order.
REAL = {'p1': 'p1', 'p2': 'p01', 'p3': 'P1', 'r1': 'r1', 'r2': 'r01', 'r3': 'R1'}
PORTS = {'ports': [dzn.port(REAL['p1'], ['I1']), dzn.port(REAL['r1'], ['I2'], 'requires'), dzn.port(REAL['p2'], ['I1']),
                   dzn.port(REAL['r2'], ['I2'], 'requires'), dzn.port(REAL['p3'], ['I1']), dzn.port(REAL['r3'], ['I2'], 'requires'),
                   dzn.port('inj', ['I2'], 'requires', True)]}


def real_names(desc):
    """The descriptor with the scenario's port names replaced by the names the documents use."""
    out = dict(desc)
    for side in ('provides', 'requires'):
        out[side] = {k: dict(v, s=[REAL.get(n, n) for n in v['s']]) for k, v in desc[side].items()}
    if desc.get('multiclient'):
        out['multiclient'] = dict(desc['multiclient'], port=REAL.get(desc['multiclient']['port'], desc['multiclient']['port']))
    return out


def doc_a():
    return shell.decl('extern', 'T', {'value': 'int'}) + shell.decl('enum', 'Res', {'fields': ['Ok', 'No']}, ['My']) + \
        shell.decl('interface', 'I1', I1, ['My']) + shell.decl('interface', 'I2', I2, ['My']) + \
        shell.decl('component', 'C', PORTS, ['My'])


def doc_b():
    i1b = {'events': I1['events'][:2] + [dzn.event('Extra', 'out')]}
    return shell.decl('extern', 'T', {'value': 'std::string'}) + shell.decl('enum', 'Res', {'fields': ['No', 'Ok']}) + \
        shell.decl('interface', 'I1', i1b) + shell.decl('interface', 'I2', I2) + shell.decl('system', 'C', dict(
            PORTS, instances=[], bindings=[]))


def doc_a2():
    """Same declarations (same fully qualified names) as document A, different definitions."""
    i1 = {'events': I1['events'] + [dzn.event('More', 'out', ['void'], [dzn.formal('m', ['T'], 'in')])]}
    return shell.decl('extern', 'T', {'value': 'std::string'}) + shell.decl('enum', 'Res', {'fields': ['Ok', 'No', 'Busy']}, ['My']) + \
        shell.decl('interface', 'I1', i1, ['My']) + shell.decl('interface', 'I2', I2, ['My']) + \
        shell.decl('component', 'C', PORTS, ['My'])


DOCS = {'A': doc_a, 'B': doc_b, 'A2': doc_a2}
ENC = {'A': ['My', 'C'], 'B': ['C'], 'A2': ['My', 'C']}
MC = {'port': 'p1', 'claim': 'Claim', 'grant': ['Ok'], 'release': 'Release'}
S = shell.sel


def named_cfg(name, doc):
    base = shell.default_cfg(encapsulee=ENC[doc])
    if name == 'sts':
        return base
    if name == 'mts':
        return dict(base, provides={'sts': shell.NONE, 'mts': shell.ALL}, requires={'sts': shell.NONE, 'mts': shell.ALL})
    if name == 'named':
        return dict(base, provides={'sts': shell.NONE, 'mts': S('SET', ['p1', 'p2', 'p3'])},
                    requires={'sts': S('SET', ['r1', 'r2']), 'mts': S('SET', ['r3'])}, origin='import')
    if name == 'mc':
        return dict(base, provides={'sts': shell.NONE, 'mts': shell.ALL}, requires={'sts': shell.ALL, 'mts': shell.NONE},
                    multiclient=MC)
    if name == 'bad-config':
        return dict(base, provides={'sts': S('SET', ['p1']), 'mts': shell.REMAINING})
    if name == 'bad-build':
        return dict(base, encapsulee=['Nope'])
    if name == 'prefixed':
        return dict(base, provides={'sts': shell.NONE, 'mts': shell.ALL}, requires={'sts': shell.NONE, 'mts': shell.ALL},
                    prefix=['My', 'Lib'], suffix='AdvShell')
    if name == 'prefixed-alias':
        return dict(base, provides={'sts': shell.NONE, 'mts': shell.ALL}, requires={'sts': shell.NONE, 'mts': shell.ALL},
                    prefix=['My_Lib'], suffix='AdvShell')
    raise ValueError(name)


# ----------------------------------------------------------------------------------------------
# digests
# ----------------------------------------------------------------------------------------------

def canon(obj, seen=None):
    """Deep structural rendering of FileContents / Configuration objects (content, not identity)."""
    if obj is None or isinstance(obj, (str, int, float, bool)):
        return obj
    if isinstance(obj, enum.Enum):
        return f'{type(obj).__name__}.{obj.name}'
    if isinstance(obj, (list, tuple)):
        return [canon(x) for x in obj]
    if isinstance(obj, (set, frozenset)):
        return {'<set>': sorted(json.dumps(canon(x), sort_keys=True) for x in obj)}
    if isinstance(obj, dict):
        return {str(k): canon(v) for k, v in sorted(obj.items(), key=lambda kv: str(kv[0]))}
    if dataclasses.is_dataclass(obj):
        return {'<type>': type(obj).__name__,
                **{f.name: canon(getattr(obj, f.name)) for f in dataclasses.fields(obj)}}
    if hasattr(obj, '__dict__'):
        return {'<type>': type(obj).__name__, **{k: canon(v) for k, v in sorted(vars(obj).items())}}
    return repr(obj)


def digest(obj):
    return hashlib.sha256(json.dumps(canon(obj), sort_keys=True).encode('utf-8')).hexdigest()[:24]


def files_digest(files):
    hsh = hashlib.sha256()
    for gen in files:
        hsh.update(gen.filename.encode('utf-8') + b'\0' + gen.contents.encode('utf-8') + b'\0' + gen.hash.encode() + b'\1')
    return hsh.hexdigest()[:24]


def noncomment_digest(files):
    hsh = hashlib.sha256()
    for gen in files:
        hsh.update(gen.filename.encode('utf-8') + b'\0')
        for line in gen.contents.split('\n'):
            if not line.startswith('//'):
                hsh.update(line.encode('utf-8') + b'\n')
    return hsh.hexdigest()[:24]


def cfg_key(doc, desc, without_comments=False):
    dsc = {k: v for k, v in desc.items() if not (without_comments and k in ('copyright', 'creator'))}
    return doc + '|' + json.dumps(dsc, sort_keys=True)


def standalone_ok(files, prefix):
    core.repo_guard()
    from dznpy.support_files import strict_port, ilog, misc_utils, meta_helpers, multi_client_selector, mutex_wrapped  # noqa
    from dznpy.scoping import ns_ids_t  # pylint: disable=import-outside-toplevel
    pre = ns_ids_t(list(prefix)) if prefix else None
    alone = [m.create_header(pre) for m in (strict_port, ilog, misc_utils, meta_helpers, multi_client_selector, mutex_wrapped)]
    got = files[2:]
    return len(got) == 6 and all(a.filename == g.filename and a.contents == g.contents and a.namespace == g.namespace
                                 for a, g in zip(alone, got))


def build_event(doc, fct, desc, env, order=None, builder=None):
    """One build with the real Builder; returns the event for BuildHistoryTrace.tla."""
    stg = shell.Staged()
    before_m = digest(fct)
    cfg = None
    try:
        cfg = shell.make_configuration(real_names(desc), fct, stg, order)
    except Exception as exc:  # pylint: disable=broad-except
        stg.exc = exc
    before_c = digest(cfg) if cfg is not None else 'no-configuration'
    if cfg is not None:
        import dznpy.adv_shell as adv  # pylint: disable=import-outside-toplevel
        try:
            stg.result = (builder or adv.Builder()).build(cfg)
        except RecursionError as exc:
            stg.exc = exc
        except Exception as exc:  # pylint: disable=broad-except
            stg.exc = exc
    after = [digest(fct), digest(cfg) if cfg is not None else 'no-configuration']
    evt = {'key': cfg_key(doc, desc), 'ckey': cfg_key(doc, desc, True), 'env': env,
           'before': [before_m, before_c], 'after': after, 'ok': stg.exc is None}
    if stg.exc is None:
        files = stg.result.files
        evt.update(out='ok:' + files_digest(files), ncout=noncomment_digest(files),
                   md5ok=all(g.hash == hashlib.md5(g.contents.encode('utf-8')).hexdigest() for g in files),
                   supportok=standalone_ok(files, desc.get('prefix')), names=[g.filename for g in files])
    else:
        evt.update(out='error:' + type(stg.exc).__name__, ncout='', md5ok=True, supportok=True, names=[],
                   detail=str(stg.exc)[:200])
    return evt


# ----------------------------------------------------------------------------------------------
# child interpreters
# ----------------------------------------------------------------------------------------------

def child_main():
    """Entry point of a child interpreter: reads jobs from stdin, prints one event per line."""
    core.repo_guard()
    job = json.load(sys.stdin)
    parsed = {}
    shared = None
    if job['env'].get('builder') == 'shared':
        import dznpy.adv_shell as adv  # pylint: disable=import-outside-toplevel
        shared = adv.Builder()
    for item in job['jobs']:
        doc = item['doc']
        if item.get('recompose'):
            # one parsed model object is built, then edited in place (its extern declarations are replaced by those of
            # document A2), then built again; elsewhere the same edited content is built without the earlier build
            fct = _quiet(shell.parse, DOCS['A']())
            other = _quiet(shell.parse, DOCS['A2']())
            if item['prebuild']:
                _quiet(build_event, 'A', fct, item['desc'], dict(job['env']), None, shared)
            fct.externs[:] = other.externs
            evt = _quiet(build_event, 'A+externs-of-A2', fct, item['desc'], dict(job['env'], prebuild=item['prebuild']), None, shared)
            print(json.dumps(evt), flush=True)
            continue
        if item.get('churn_batch'):
            # a batch of models of one document is parsed, built and released together, then a batch of the other
            # document is parsed and built: fresh models land on the addresses of released ones
            import gc  # pylint: disable=import-outside-toplevel
            for phase_doc in item['churn_batch']:
                models = [_quiet(shell.parse, DOCS[phase_doc]()) for _ in range(item['size'])]
                for fct in models:
                    evt = _quiet(build_event, phase_doc, fct, named_cfg(item['cfg'], phase_doc),
                                 dict(job['env'], churn_batch=True), None, shared)
                    print(json.dumps(evt), flush=True)
                del models, fct
                gc.collect()
            continue
        if item.get('churn'):
            # parse, build, drop: the parsed model is garbage before the next one is created (address reuse)
            fct = _quiet(shell.parse, DOCS[doc]())
            evt = _quiet(build_event, doc, fct, item['desc'], dict(job['env'], order=item.get('order'), churn=True),
                         item.get('order'), shared)
            del fct
            import gc  # pylint: disable=import-outside-toplevel
            gc.collect()
            print(json.dumps(evt), flush=True)
            continue
        if item.get('fresh_parse') or doc not in parsed:
            parsed[doc] = _quiet(shell.parse, DOCS[doc]())
        evt = _quiet(build_event, doc, parsed[doc], item['desc'], dict(job['env'], order=item.get('order')),
                     item.get('order'), shared)
        print(json.dumps(evt), flush=True)


def run_children(jobs_by_env):
    """jobs_by_env: list of (env dict, [jobs]); one interpreter per entry, run in parallel."""
    procs = []
    for env, jobs in jobs_by_env:
        penv = dict(os.environ, PYTHONHASHSEED=str(env['seed']), VERIF_REPO=core.REPO)
        proc = subprocess.Popen([sys.executable, '-c', 'import sys; sys.path.insert(0, %r); '
                                 'from harness import history_checks as h; h.child_main()' % core.VERIF],
                                stdin=subprocess.PIPE, stdout=subprocess.PIPE, stderr=subprocess.PIPE, text=True, env=penv)
        proc.stdin.write(json.dumps({'env': env, 'jobs': jobs}))
        proc.stdin.close()
        procs.append((proc, jobs))
    events = []
    for proc, jobs in procs:
        out = proc.stdout.read()
        err = proc.stderr.read()
        proc.wait()
        lines = [ln for ln in out.splitlines() if ln.startswith('{')]
        expected = sum(len(j['churn_batch']) * j['size'] if j.get('churn_batch') else 1 for j in jobs)
        if proc.returncode != 0 or len(lines) != expected:
            raise core.MachineryError(f'child interpreter failed ({proc.returncode}): {err[-800:]}')
        events.extend(json.loads(ln) for ln in lines)
    return events


def validate(chk, traces, label):
    keep = ('key', 'ckey', 'out', 'ncout', 'before', 'after', 'md5ok', 'supportok', 'ok')
    full = {str(t['id']): t for t in traces}
    slim = [{'id': t['id'], 'events': [{k: e[k] for k in keep} for e in t['events']]} for t in traces]
    rejected = [(full[str(t['id'])], pos) for t, pos in
                core.validate_traces(chk, 'BuildHistoryTrace', 'BuildHistoryTrace.cfg', slim, batch=400)]
    for trace, pos in rejected[:10]:
        evt = trace['events'][pos - 1]
        prior = [e for e in trace['events'][:pos - 1] if e['key'] == evt['key']]
        priorc = [e for e in trace['events'][:pos - 1] if e['ckey'] == evt['ckey'] and e['ok']]
        if evt['before'] != evt['after']:
            what = f'inputs changed by the build (digests before {evt["before"]}, after {evt["after"]})'
        elif prior and prior[0]['out'] != evt['out']:
            what = (f'same model and configuration, different output: {prior[0]["out"]} in {prior[0]["env"]} but '
                    f'{evt["out"]} in {evt["env"]}')
        elif evt['ok'] and priorc and priorc[0]['ncout'] != evt['ncout']:
            what = 'changing only copyright/creator changed non-comment lines'
        elif evt['ok'] and not evt['md5ok']:
            what = 'hash is not the MD5 of the UTF-8 contents'
        elif evt['ok'] and not evt['supportok']:
            what = 'support files in the result differ from the stand-alone generated ones'
        else:
            what = 'event not explained'
        chk.violation(f'{label}: {what} [key {evt["key"][:160]}]',
                      {'event': evt, 'earlier_event_same_key': prior[:1], 'spec': 'BuildHistoryTrace.tla',
                       'trace_id': trace['id'], 'position': pos})
    return rejected


# ----------------------------------------------------------------------------------------------
# C08
# ----------------------------------------------------------------------------------------------

def orders_for(desc, rng, cap):
    nmax = max([len(desc[s][k]['s']) for s in ('provides', 'requires') for k in ('sts', 'mts')] + [1])
    perms = list(itertools.permutations(range(nmax)))
    rng.shuffle(perms)
    chosen = [tuple(range(nmax)), tuple(reversed(range(nmax)))] + perms
    out = []
    for prm in chosen:
        if list(prm) not in out:
            out.append(list(prm))
    return out[:cap]


def check_c08(tier, seed):
    chk = core.Check('C08', tier, seed)
    core.repo_guard()
    chk.rule = ('TLC enumerates the configurations that name 2-3 ports explicitly on a side (56, incl. multi-client); each '
                'is built in child interpreters under 8/32 PYTHONHASHSEED values and up to 6 permutations of the order in '
                'which every name set is constructed, plus the 7 named configurations on two documents; all build events '
                'are merged and BuildHistoryTrace.tla infers F: (model, configuration) -> output and rejects the first '
                'event that makes it a relation; md5 = MD5(utf-8) is recomputed with hashlib and required by the trace spec.')
    res = chk.tlc('BuildHistoryMC', 'BuildHistory_configs.cfg', workers=4)
    cfgs = [e['cfg'] for e in res.emitted()]
    rng = random.Random(seed + 8)
    jobs = []
    for cfg in cfgs:
        desc = shell.default_cfg(encapsulee=ENC['A'], provides=cfg['prov'], requires=cfg['req'],
                                 multiclient=MC if cfg['mc'] else None)
        for order in orders_for(desc, rng, 4 if tier == 'quick' else 6):
            jobs.append({'doc': 'A', 'desc': desc, 'order': order})
    for doc in ('A', 'B'):
        for name in ('sts', 'mts', 'named', 'mc', 'prefixed', 'prefixed-alias', 'bad-build'):
            jobs.append({'doc': doc, 'desc': named_cfg(name, doc), 'order': None})
    # models parsed, built and dropped in alternation: documents A and A2 declare the same names differently
    for k in range(24 if tier == 'quick' else 120):
        doc = 'A' if k % 2 == 0 else 'A2'
        jobs.append({'doc': doc, 'desc': named_cfg('mts' if k % 3 else 'named', doc), 'order': None, 'churn': True})
    for pre in (True, False):
        jobs.append({'recompose': True, 'prebuild': pre, 'doc': 'A', 'desc': named_cfg('mts', 'A'), 'order': None})
    jobs.append({'churn_batch': ['A', 'A2', 'A', 'A2'], 'size': 12 if tier == 'quick' else 40, 'cfg': 'mts', 'doc': 'A',
                 'desc': named_cfg('mts', 'A'), 'order': None})
    # text that is not in Unicode normal form C (hash must be the MD5 of the UTF-8 bytes as they are)
    for text in ('Zoe\u0308 A\u030a', 'Unit: \u212b \u2126 \u212a', 'caf\u00e9 \u1e9b\u0323'):
        jobs.append({'doc': 'A', 'desc': dict(named_cfg('mts', 'A'), copyright=text, creator='by ' + text), 'order': None})
    seeds = [0, 1, 2, 3, 7, 42, 1234, 99999] if tier == 'quick' else list(range(24)) + [42, 1234, 99999, 4294967295, 31337, 65536, 777, 2024]
    events = run_children([({'seed': s, 'pid': 'child', 'builder': 'shared' if n % 2 else 'fresh'}, jobs)
                           for n, s in enumerate(seeds)])
    chk.sample({k: events[3][k] for k in ('key', 'env', 'out', 'md5ok')})
    by_key = {}
    for evt in events:
        by_key.setdefault(evt['key'], []).append(evt)
    traces = [{'id': f'k{n}', 'events': evs} for n, evs in enumerate(by_key.values())]
    validate(chk, traces, 'hash seed / set order')
    for evt in events:
        chk.count((evt['key'], json.dumps(evt['env'], sort_keys=True)))
    chk.extra['configurations'] = len(by_key)
    chk.extra['hash_seeds'] = len(seeds)
    chk.assumptions = ['"equal inputs" = equal document and equal configuration content (sets compared as sets)',
                       'the process dimension is covered by one child interpreter per hash seed']
    return chk.finish()


# ----------------------------------------------------------------------------------------------
# C12
# ----------------------------------------------------------------------------------------------

def run_history(args):
    hist, hid = args
    core.repo_guard()
    import dznpy.adv_shell as adv  # pylint: disable=import-outside-toplevel
    objs = {}
    shared = adv.Builder()
    events = []
    for step in hist:
        obj = step['obj']
        doc = 'B' if obj == 'b' else 'A'
        if obj not in objs:
            objs[obj] = _quiet(shell.parse, DOCS[doc]())
        builder = shared if step['builder'] == 'shared' else None
        evt = _quiet(build_event, doc, objs[obj], named_cfg(step['cfg'], doc), {'history': hid}, None, builder)
        evt['step'] = step
        events.append(evt)
    return events


def edited_configuration(chk):
    """A configuration object that was built, then edited by its owner and built again gives what a fresh configuration
    with the edited values gives: a build leaves nothing behind in the configuration that later builds read."""
    core.repo_guard()
    import dznpy.adv_shell as adv  # pylint: disable=import-outside-toplevel
    for doc in ('A', 'B'):
        fct = _quiet(shell.parse, DOCS[doc]())
        for name in ('sts', 'mc', 'prefixed'):
            desc = real_names(named_cfg(name, doc))
            edited = dict(desc, suffix='Edited', file='sub/Renamed.dzn')
            try:
                cfg = shell.make_configuration(desc, fct)
                _quiet(adv.Builder().build, cfg)
                cfg.output_basename_suffix = 'Edited'
                cfg.dezyne_filename = 'sub/Renamed.dzn'
            except (AttributeError, TypeError):
                continue                      # configuration objects are immutable: nothing to probe
            chk.count(('edited-configuration', doc, name))
            try:
                again = _quiet(adv.Builder().build, cfg)
                fresh = _quiet(adv.Builder().build, shell.make_configuration(edited, fct))
            except Exception as exc:  # pylint: disable=broad-except
                chk.violation(f'edited configuration ({doc}/{name}): {type(exc).__name__}: {exc}', {'doc': doc, 'cfg': name})
                continue
            got = sorted((g.filename, g.hash) for g in again.files)
            want = sorted((g.filename, g.hash) for g in fresh.files)
            if got != want:
                diff = [x for x in got if x not in want][:3]
                chk.violation(f'a configuration that was built, edited (suffix, file name) and built again differs from a fresh '
                              f'configuration with the same values: {diff}', {'doc': doc, 'cfg': name, 'got': got, 'fresh': want})


def check_c12(tier, seed):
    import multiprocessing  # pylint: disable=import-outside-toplevel
    chk = core.Check('C12', tier, seed)
    core.repo_guard()
    chk.rule = ('TLC enumerates every history of <=2/3 builds in one process over {two parses of document A, one parse of '
                'document B} x 7 configurations (4 valid, multi-client, one refused when constructed, one refused by build) '
                'x {shared Builder, fresh Builder}; each history is executed in one interpreter with deep digests of model and '
                'configuration before/after every build; reference outputs come from one fresh child interpreter per '
                '(document, configuration); BuildHistoryTrace.tla requires every event to repeat the inferred function and '
                'the support files to equal the stand-alone generated ones. Also: builds with padded / blank-only / multi-line copyright and creator texts leave the configuration as given. The documents use look-alike port names (p1, p01, P1 / r1, r01, R1).')
    res = chk.tlc('BuildHistoryMC', 'BuildHistory_history.cfg' if tier == 'quick' else 'BuildHistory_history3.cfg',
                  workers=8, timeout=3000)
    hists = [e['hist'] for e in res.emitted()]
    refs = []
    for doc in ('A', 'B'):
        for name in sorted(('sts', 'mts', 'named', 'mc', 'bad-config', 'bad-build', 'prefixed', 'prefixed-alias')):
            refs.append(({'seed': 0, 'pid': f'fresh-{doc}-{name}'}, [{'doc': doc, 'desc': named_cfg(name, doc), 'order': None}]))
    ref_events = run_children(refs)
    chk.sample({'history': hists[len(hists) // 2]})
    with multiprocessing.Pool(min(core.NCPU, 16)) as pool:
        results = pool.map(run_history, [(h, i) for i, h in enumerate(hists)], chunksize=50)
    traces = []
    chunk = []
    for i, evs in enumerate(results):
        chk.count(('history', i))
        chunk.extend(evs)
        if len(chunk) > 120 or i == len(results) - 1:
            traces.append({'id': f'h{i}', 'events': ref_events + chunk})
            chunk = []
    chk.sample({k: results[-1][-1][k] for k in ('key', 'out', 'before', 'after', 'step')})
    validate(chk, traces, 'build history')
    # free-text inputs: copyright / creator texts with surrounding white space, blank-only and multi-line values must be
    # left exactly as the caller gave them, in successful and in refused builds
    texts = [('Copyright (c) test', 'ABC\nDEF\nGHI\n'), ('  (c) padded  \n\n', '  by someone  '), ('(c)', '   '), ('(c)\n', ''),
             ('\n(c)', '\n\nlate\n\n'), ('(c)\t', '\tx\t')]
    jobs = [{'doc': doc, 'desc': dict(named_cfg(name, doc), copyright=cpy, creator=crt), 'order': None}
            for doc in ('A', 'B') for name in ('sts', 'mc', 'named', 'bad-build', 'prefixed') for cpy, crt in texts]
    tevents = run_children([({'seed': 0, 'pid': 'c12-texts'}, jobs)])
    for evt in tevents:
        chk.count(('texts', evt['key']))
    validate(chk, [{'id': 'texts', 'events': tevents}], 'free-text inputs')
    edited_configuration(chk)
    chk.traces = len(hists)
    chk.exhaustive = True
    chk.assumptions = ['"observably unchanged" = equal deep structural digest of FileContents and Configuration (every '
                       'dataclass field, list order, set content, NamespaceTree parent chain)']
    return chk.finish()


# ----------------------------------------------------------------------------------------------
# C19 (build part)
# ----------------------------------------------------------------------------------------------

HOSTILE = ['Copyright (c) test', 'line1\nline2\n\n  indented', 'a\rb', 'x\x0by\x0cz', 'u v w\x85q',
           '*/ int evil; /*', '#include <evil>\n};', '\n\n', 'tab\there \\', '  leading and trailing  \n', '\x1c\x1d\x1e',
           # text that already looks like a comment, with a line separator other than LF inside
           '// pre-commented\u2028#define EVIL 1', '// a\x0cint evil;', '//x\rint evil;\n// y', '* bullet\n* list', '/* c */ int x;',
           '// only comment lines\n// here']


def c19_support_header_part(chk):
    """support_files.generate_cpp_code: the header text of a support file (a TextBlock or already a Comment) is user text
    rendered as a comment: whatever it is, the non-comment lines of the generated file stay those of the baseline."""
    core.repo_guard()
    from dznpy import support_files  # pylint: disable=import-outside-toplevel
    from dznpy.cpp_gen import Comment  # pylint: disable=import-outside-toplevel
    from dznpy.text_gen import TextBlock  # pylint: disable=import-outside-toplevel

    def code_lines(header):
        cfg = support_files.SupportFileCfg(header=header, body=TextBlock(['int body_line;']))
        text = str(support_files.generate_cpp_code(cfg))
        return [ln for ln in text.split('\n') if ln.strip() and not ln.lstrip().startswith('//')]
    base = code_lines(TextBlock('plain'))
    for text in HOSTILE:
        for kind, make in (('TextBlock', TextBlock), ('Comment', Comment), ('TextBlock of Comment', lambda t: TextBlock(Comment(t)))):
            chk.count(('support-header', kind, text))
            try:
                got = code_lines(make(text))
            except Exception as exc:  # pylint: disable=broad-except
                chk.violation(f'generate_cpp_code with a {kind} header raised {type(exc).__name__}: {exc}', {'header': text, 'kind': kind})
                continue
            if got != base:
                extra = [ln for ln in got if ln not in base][:3]
                chk.violation(f'support file header given as {kind}: header text became code: {extra}',
                              {'header': text, 'kind': kind, 'code_lines': got[:12], 'baseline': base})


def c19_build_part(chk, tier, seed):
    core.repo_guard()
    rng = random.Random(seed + 19)
    jobs = []
    for doc in ('A', 'B'):
        for name in ('sts', 'mts', 'mc', 'prefixed'):
            variants = [(c, k) for c in HOSTILE for k in [None] + HOSTILE]
            rng.shuffle(variants)
            nho = len(HOSTILE)
            # every hostile text is used as copyright and as creator in every group; random pairs on top
            fixed = [(HOSTILE[i], HOSTILE[(i * 5 + 2) % nho]) for i in range(nho)]
            for cpy, crt in [(HOSTILE[0], None)] + fixed + variants[:6 if tier == 'quick' else 60]:
                jobs.append({'doc': doc, 'desc': dict(named_cfg(name, doc), copyright=cpy, creator=crt), 'order': None})
    events = run_children([({'seed': 0, 'pid': 'c19'}, jobs)])
    by_ckey = {}
    for evt in events:
        by_ckey.setdefault(evt['ckey'], []).append(evt)
        chk.count(('build', evt['key']))
    traces = [{'id': f'c{n}', 'events': evs} for n, evs in enumerate(by_ckey.values())]
    chk.sample({'build_event': {k: events[1][k] for k in ('key', 'ncout', 'out')}})
    validate(chk, traces, 'copyright/creator variation')
